//! Adapters between the chain stub and contract code.
//!
//! REAL code: marketplace, royalty (from /repo), cw20-base 1.0.1, cw721-base 0.16.0.
//! STUBS:     `Hostile` (a Byzantine token-shaped contract, C18/C19 probes only) and
//!            `Sloppy721` (a CW721-shaped contract that reports the true sender but lets a
//!            token id be sent twice, C12 worlds only).

use cosmwasm_std::{
    from_slice, to_binary, Binary, Coin, Deps, DepsMut, Env, MessageInfo, Reply, Response, StdError,
    WasmMsg,
};
use serde::{Deserialize, Serialize};

#[derive(Clone, Copy, Debug, PartialEq, Eq, PartialOrd, Ord)]
pub enum Kind {
    Market,
    Royalty,
    Cw20,
    Cw721,
    Hostile,
    Sloppy721,
    Sloppy20,
}

impl Kind {
    pub fn name(&self) -> &'static str {
        match self {
            Kind::Market => "market",
            Kind::Royalty => "royalty",
            Kind::Cw20 => "cw20",
            Kind::Cw721 => "cw721",
            Kind::Hostile => "hostile",
            Kind::Sloppy721 => "sloppy721",
            Kind::Sloppy20 => "sloppy20",
        }
    }
    pub fn from_name(s: &str) -> Option<Kind> {
        Some(match s {
            "market" => Kind::Market,
            "royalty" => Kind::Royalty,
            "cw20" => Kind::Cw20,
            "cw721" => Kind::Cw721,
            "hostile" => Kind::Hostile,
            "sloppy721" => Kind::Sloppy721,
            "sloppy20" => Kind::Sloppy20,
            _ => return None,
        })
    }
}

fn parse<T: serde::de::DeserializeOwned>(msg: &[u8]) -> Result<T, String> {
    from_slice::<T>(msg).map_err(|e| format!("parse error: {e}"))
}

pub fn instantiate(kind: Kind, deps: DepsMut, env: Env, info: MessageInfo, msg: &[u8]) -> Result<Response, String> {
    match kind {
        Kind::Market => marketplace::contract::instantiate(deps, env, info, parse(msg)?).map_err(|e| e.to_string()),
        Kind::Royalty => royalty::contract::instantiate(deps, env, info, parse(msg)?).map_err(|e| e.to_string()),
        Kind::Cw20 => cw20_base::contract::instantiate(deps, env, info, parse(msg)?).map_err(|e| e.to_string()),
        Kind::Cw721 => cw721_base::entry::instantiate(deps, env, info, parse(msg)?).map_err(|e| e.to_string()),
        Kind::Hostile | Kind::Sloppy721 | Kind::Sloppy20 => Ok(Response::new()),
    }
}

pub fn execute(kind: Kind, deps: DepsMut, env: Env, info: MessageInfo, msg: &[u8]) -> Result<Response, String> {
    match kind {
        Kind::Market => marketplace::contract::execute(deps, env, info, parse(msg)?).map_err(|e| e.to_string()),
        Kind::Royalty => royalty::contract::execute(deps, env, info, parse(msg)?).map_err(|e| e.to_string()),
        Kind::Cw20 => cw20_base::contract::execute(deps, env, info, parse(msg)?).map_err(|e| e.to_string()),
        Kind::Cw721 => cw721_base::entry::execute(deps, env, info, parse(msg)?).map_err(|e| e.to_string()),
        Kind::Hostile => hostile_execute(deps, env, info, msg),
        Kind::Sloppy721 => sloppy_execute(deps, env, info, msg),
        Kind::Sloppy20 => sloppy20_execute(deps, env, info, msg),
    }
}

pub fn query(kind: Kind, deps: Deps, env: Env, msg: &[u8]) -> Result<Binary, String> {
    match kind {
        Kind::Market => marketplace::contract::query(deps, env, parse(msg)?).map_err(|e| e.to_string()),
        Kind::Royalty => royalty::contract::query(deps, env, parse(msg)?).map_err(|e| e.to_string()),
        Kind::Cw20 => cw20_base::contract::query(deps, env, parse(msg)?).map_err(|e| e.to_string()),
        Kind::Cw721 => cw721_base::entry::query(deps, env, parse(msg)?).map_err(|e| e.to_string()),
        Kind::Hostile => hostile_query(deps, env, msg),
        Kind::Sloppy721 => Err("sloppy721: no queries".into()),
        Kind::Sloppy20 => hostile_query(deps, env, msg),
    }
}

pub fn reply(kind: Kind, deps: DepsMut, env: Env, msg: Reply) -> Result<Response, String> {
    match kind {
        Kind::Market => marketplace::contract::reply(deps, env, msg).map_err(|e| e.to_string()),
        _ => Err("contract has no reply entry point".into()),
    }
}

// ------------------------------------------------------------------------------------------
// Hostile stub
// ------------------------------------------------------------------------------------------

/// Messages understood by the hostile contract.  Anything that parses as one of these is
/// obeyed; in addition it answers the CW20 / CW721 execute vocabulary (`transfer`,
/// `transfer_nft`, `send`, `send_nft`) with success or failure on command.
#[derive(Serialize, Deserialize, Clone, Debug)]
#[serde(rename_all = "snake_case")]
pub enum HostileMsg {
    /// call `contract` with `msg` (already JSON) and `funds` — the callee sees the hostile
    /// contract as `info.sender`
    Forward { contract: String, msg: Binary, funds: Vec<Coin> },
    /// from now on fail (true) / accept (false) every token-style transfer asked of this contract
    SetFail { fail: bool },
}

const HOSTILE_FAIL_KEY: &[u8] = b"fail";

fn hostile_execute(deps: DepsMut, _env: Env, _info: MessageInfo, msg: &[u8]) -> Result<Response, String> {
    if let Ok(m) = from_slice::<HostileMsg>(msg) {
        return match m {
            HostileMsg::Forward { contract, msg, funds } => {
                Ok(Response::new().add_message(WasmMsg::Execute { contract_addr: contract, msg, funds }))
            }
            HostileMsg::SetFail { fail } => {
                if fail {
                    deps.storage.set(HOSTILE_FAIL_KEY, b"1");
                } else {
                    deps.storage.remove(HOSTILE_FAIL_KEY);
                }
                Ok(Response::new())
            }
        };
    }
    // token vocabulary
    let v: serde_json::Value = serde_json::from_slice(msg).map_err(|e| e.to_string())?;
    let key = v.as_object().and_then(|m| m.keys().next().cloned()).unwrap_or_default();
    match key.as_str() {
        "transfer" | "transfer_nft" | "send" | "send_nft" => {
            if deps.storage.get(HOSTILE_FAIL_KEY).is_some() {
                Err("hostile: transfer refused".into())
            } else {
                Ok(Response::new())
            }
        }
        _ => Err(format!("hostile: unknown message {key}")),
    }
}

fn hostile_query(_deps: Deps, _env: Env, msg: &[u8]) -> Result<Binary, String> {
    let v: serde_json::Value = serde_json::from_slice(msg).map_err(|e| e.to_string())?;
    let key = v.as_object().and_then(|m| m.keys().next().cloned()).unwrap_or_default();
    match key.as_str() {
        "token_info" => Ok(Binary(
            serde_json::to_vec(&serde_json::json!({
                "name": "junk", "symbol": "JUNK", "decimals": 6, "total_supply": "1000000000"
            }))
            .unwrap(),
        )),
        "balance" => Ok(Binary(serde_json::to_vec(&serde_json::json!({"balance": "0"})).unwrap())),
        "contract_info" => Ok(Binary(
            serde_json::to_vec(&serde_json::json!({"name": "junk", "symbol": "JUNK"})).unwrap(),
        )),
        _ => Err(StdError::generic_err("hostile: unknown query").to_string()),
    }
}

// ------------------------------------------------------------------------------------------
// Sloppy CW721 stub: honest about the sender, careless about ownership
// ------------------------------------------------------------------------------------------

fn sloppy_execute(_deps: DepsMut, _env: Env, info: MessageInfo, msg: &[u8]) -> Result<Response, String> {
    let m: cw721::Cw721ExecuteMsg = parse(msg)?;
    match m {
        cw721::Cw721ExecuteMsg::SendNft { contract, token_id, msg } => {
            let hook = cw721::Cw721ReceiveMsg { sender: info.sender.to_string(), token_id, msg };
            let wrapped = serde_json::json!({ "receive_nft": serde_json::to_value(&hook).map_err(|e| e.to_string())? });
            Ok(Response::new().add_message(WasmMsg::Execute {
                contract_addr: contract,
                msg: Binary(serde_json::to_vec(&wrapped).unwrap()),
                funds: vec![],
            }))
        }
        cw721::Cw721ExecuteMsg::TransferNft { .. } => Ok(Response::new()),
        _ => Err("sloppy721: unsupported".into()),
    }
}

// ------------------------------------------------------------------------------------------
// Sloppy CW20 stub: honest about the sender, but keeps no balances and does not refuse zero amounts
// ------------------------------------------------------------------------------------------

fn sloppy20_execute(_deps: DepsMut, _env: Env, info: MessageInfo, msg: &[u8]) -> Result<Response, String> {
    let m: cw20::Cw20ExecuteMsg = parse(msg)?;
    match m {
        cw20::Cw20ExecuteMsg::Send { contract, amount, msg } => {
            let hook = cw20::Cw20ReceiveMsg { sender: info.sender.to_string(), amount, msg };
            let wrapped = serde_json::json!({ "receive": serde_json::to_value(&hook).map_err(|e| e.to_string())? });
            Ok(Response::new().add_message(WasmMsg::Execute {
                contract_addr: contract,
                msg: Binary(serde_json::to_vec(&wrapped).unwrap()),
                funds: vec![],
            }))
        }
        cw20::Cw20ExecuteMsg::Transfer { .. } => Ok(Response::new()),
        _ => Err("sloppy20: unsupported".into()),
    }
}

#[allow(dead_code)]
pub fn to_bin<T: Serialize>(t: &T) -> Binary {
    to_binary(t).unwrap()
}
