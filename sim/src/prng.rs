//! The only source of randomness in the simulator: xoshiro256** seeded through splitmix64.
//! Every decision of a run (schedule, arguments, clock steps, faults) is drawn from one
//! `Prng` whose state is a pure function of (VERIF_SEED, property id, run index).

#[derive(Clone, Debug)]
pub struct Prng {
    s: [u64; 4],
}

pub fn splitmix64(x: &mut u64) -> u64 {
    *x = x.wrapping_add(0x9E37_79B9_7F4A_7C15);
    let mut z = *x;
    z = (z ^ (z >> 30)).wrapping_mul(0xBF58_476D_1CE4_E5B9);
    z = (z ^ (z >> 27)).wrapping_mul(0x94D0_49BB_1331_11EB);
    z ^ (z >> 31)
}

/// FNV-1a, used for stable hashing of logs / states / names (never `std::hash`, whose
/// `RandomState` would be a hidden source of nondeterminism).
pub fn fnv1a(bytes: &[u8]) -> u64 {
    let mut h: u64 = 0xcbf2_9ce4_8422_2325;
    for b in bytes {
        h ^= *b as u64;
        h = h.wrapping_mul(0x0000_0100_0000_01B3);
    }
    h
}

pub fn fnv_mix(h: u64, bytes: &[u8]) -> u64 {
    let mut h = h;
    for b in bytes {
        h ^= *b as u64;
        h = h.wrapping_mul(0x0000_0100_0000_01B3);
    }
    h
}

impl Prng {
    pub fn new(seed: u64) -> Self {
        let mut x = seed;
        let s = [splitmix64(&mut x), splitmix64(&mut x), splitmix64(&mut x), splitmix64(&mut x)];
        Prng { s }
    }

    /// Derive the generator of run `run` of the batch for `prop` under `seed`.
    pub fn for_run(seed: u64, prop: &str, run: u64) -> Self {
        let mut x = seed ^ fnv1a(prop.as_bytes()).rotate_left(17);
        let a = splitmix64(&mut x);
        let mut y = a ^ run.wrapping_mul(0xD6E8_FEB8_6659_FD93);
        let b = splitmix64(&mut y);
        Prng::new(b)
    }

    pub fn next_u64(&mut self) -> u64 {
        let result = self.s[1].wrapping_mul(5).rotate_left(7).wrapping_mul(9);
        let t = self.s[1] << 17;
        self.s[2] ^= self.s[0];
        self.s[3] ^= self.s[1];
        self.s[1] ^= self.s[2];
        self.s[0] ^= self.s[3];
        self.s[2] ^= t;
        self.s[3] = self.s[3].rotate_left(45);
        result
    }

    /// uniform in 0..n (n > 0)
    pub fn below(&mut self, n: u64) -> u64 {
        debug_assert!(n > 0);
        // multiply-shift; bias is irrelevant here
        ((self.next_u64() as u128 * n as u128) >> 64) as u64
    }

    pub fn below_usize(&mut self, n: usize) -> usize {
        self.below(n as u64) as usize
    }

    /// inclusive range
    pub fn range(&mut self, lo: u64, hi: u64) -> u64 {
        if hi <= lo {
            return lo;
        }
        lo + self.below(hi - lo + 1)
    }

    pub fn range128(&mut self, lo: u128, hi: u128) -> u128 {
        if hi <= lo {
            return lo;
        }
        let span = hi - lo + 1;
        let r = ((self.next_u64() as u128) << 64) | self.next_u64() as u128;
        lo + r % span
    }

    /// true with probability num/den
    pub fn chance(&mut self, num: u64, den: u64) -> bool {
        self.below(den) < num
    }

    pub fn pick<'a, T>(&mut self, xs: &'a [T]) -> &'a T {
        &xs[self.below_usize(xs.len())]
    }

    pub fn pick_opt<'a, T>(&mut self, xs: &'a [T]) -> Option<&'a T> {
        if xs.is_empty() {
            None
        } else {
            Some(&xs[self.below_usize(xs.len())])
        }
    }

    /// index chosen with the given weights (at least one weight > 0)
    pub fn weighted(&mut self, w: &[u32]) -> usize {
        let total: u64 = w.iter().map(|x| *x as u64).sum();
        let mut r = self.below(total.max(1));
        for (i, x) in w.iter().enumerate() {
            if r < *x as u64 {
                return i;
            }
            r -= *x as u64;
        }
        w.len() - 1
    }

    pub fn shuffle<T>(&mut self, xs: &mut [T]) {
        let n = xs.len();
        for i in (1..n).rev() {
            let j = self.below_usize(i + 1);
            xs.swap(i, j);
        }
    }
}
