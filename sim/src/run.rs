//! Execution of one history (`Exec`), generation of one run, batches over many seeds on worker
//! threads (results merged in run-index order, so outcome and counts do not depend on the
//! number of workers), replay files and minimisation.

use std::collections::{BTreeMap, BTreeSet};
use std::sync::atomic::{AtomicU64, Ordering};
use std::sync::{Arc, Mutex};

use serde::{Deserialize, Serialize};

use crate::gen::{self, Gen, Mode};
use crate::monitor::{Finding, Monitor};
use crate::obs::Obs;
use crate::ops::{Op, Sim, StepOut};
use crate::prng::{fnv1a, fnv_mix, Prng};
use crate::probes;
use crate::spec::{self, Action};
use crate::world::WorldCfg;

#[derive(Clone, Debug)]
pub struct PropCfg {
    pub id: &'static str,
    pub modes: Vec<Mode>,
    /// fork probe of this kind is inserted after a step with probability num/den
    pub probe: Option<(&'static str, u64, u64)>,
    /// exhaustive single-fault enumeration around every transaction that dispatches messages
    pub faultenum: bool,
    /// buggify: coins attached to non-deposit messages (only where the property is about them —
    /// C01 & co. assume nobody sends the market assets outside its deposit interface)
    pub attach: bool,
    pub runs: u64,
    pub max_steps: usize,
    /// message kinds that make a step "relevant" for the distinct-case count of this property
    pub kinds: &'static [&'static str],
}

#[derive(Clone, Debug, Serialize, Deserialize)]
pub struct KnownFinding {
    pub property: String,
    pub rule: String,
    pub signature: String,
    pub what: String,
    #[serde(default)]
    pub status: String, // "open" | "fixed"
    #[serde(default)]
    pub fixed_by: Option<String>,
}

pub fn load_known(path: &str) -> Vec<KnownFinding> {
    match std::fs::read_to_string(path) {
        Ok(s) => {
            let v: serde_json::Value = serde_json::from_str(&s).expect("known_findings.json: invalid JSON");
            serde_json::from_value(v["findings"].clone()).expect("known_findings.json: invalid shape")
        }
        Err(_) => vec![],
    }
}

pub fn is_known(known: &[KnownFinding], f: &Finding) -> Option<usize> {
    known.iter().position(|k| k.status != "fixed" && k.rule == f.rule && k.signature == f.sig && k.property == f.prop())
}

/// One executing history.
pub struct Exec {
    pub sim: Sim,
    pub mon: Monitor,
    pub obs: Obs,
    pub log_hash: u64,
    pub steps: usize,
    pub stats: Stats,
    pub faultenum: bool,
}

#[derive(Clone, Debug, Default)]
pub struct Stats {
    pub txs: u64,
    pub tx_ok: u64,
    pub probes: u64,
    pub probe_cases: u64,
    pub evaluations: u64,
    pub faults: BTreeMap<&'static str, u64>,
    pub distinct: BTreeSet<u64>,
    pub sim_ns: u128,
    pub samples: Vec<String>,
}

impl Stats {
    pub fn fault(&mut self, k: &'static str) {
        *self.faults.entry(k).or_insert(0) += 1;
    }
    pub fn merge(&mut self, o: &Stats) {
        self.txs += o.txs;
        self.tx_ok += o.tx_ok;
        self.probes += o.probes;
        self.probe_cases += o.probe_cases;
        self.evaluations += o.evaluations;
        for (k, v) in &o.faults {
            *self.faults.entry(k).or_insert(0) += v;
        }
        self.distinct.extend(o.distinct.iter().cloned());
        self.sim_ns += o.sim_ns;
        if self.samples.len() < 4 {
            for s in &o.samples {
                if self.samples.len() < 4 {
                    self.samples.push(s.clone());
                }
            }
        }
    }
}

impl Exec {
    pub fn new(cfg: &WorldCfg, faultenum: bool) -> Result<Exec, String> {
        let sim = Sim::new(cfg)?;
        let obs = sim.observe();
        let mon = Monitor::new(&obs, cfg.lenient_bank);
        Ok(Exec { sim, mon, obs, log_hash: fnv1a(b"log"), steps: 0, stats: Stats::default(), faultenum })
    }

    /// Execute one op of the history and evaluate every oracle.
    pub fn step(&mut self, op: &Op, prop: &PropCfg) -> Vec<Finding> {
        self.steps += 1;
        let mut findings: Vec<Finding> = vec![];
        match op {
            Op::Probe { kind, arg } => {
                self.stats.probes += 1;
                let r = probes::run_probe(kind, *arg, &self.sim, &self.obs, &self.mon);
                self.stats.probe_cases += r.cases;
                self.stats.evaluations += r.cases;
                for (k, v) in &r.faults {
                    *self.stats.faults.entry(k).or_insert(0) += v;
                }
                for (k, v) in &r.reach {
                    *self.mon.reach.entry(k).or_insert(0) += v;
                }
                self.stats.distinct.extend(r.distinct.iter().cloned());
                findings.extend(r.findings);
                self.log_hash = fnv_mix(self.log_hash, op.short().as_bytes());
                self.log_hash = fnv_mix(self.log_hash, &r.cases.to_be_bytes());
                // probes run on forks: the main world must be untouched
                return findings;
            }
            _ => {}
        }
        let action: Option<Action> = spec::classify(op, &self.sim.names);
        if self.faultenum {
            if let Op::Tx { fail_msg: None, fail_query: None, .. } = op {
                let r = probes::fault_enumeration(op, action.as_ref(), &self.sim, &self.obs);
                self.stats.probe_cases += r.cases;
                self.stats.evaluations += r.cases;
                for (k, v) in &r.faults {
                    *self.stats.faults.entry(k).or_insert(0) += v;
                }
                for (k, v) in &r.reach {
                    *self.mon.reach.entry(k).or_insert(0) += v;
                }
                self.stats.distinct.extend(r.distinct.iter().cloned());
                findings.extend(r.findings);
            }
        }
        let pre = std::mem::replace(&mut self.obs, Obs::placeholder());
        let mut count_case = false;
        let out: StepOut = self.sim.apply(op);
        let post = self.sim.observe();
        match op {
            Op::Tx { fail_msg, fail_query, funds, .. } => {
                self.stats.txs += 1;
                if out.ok {
                    self.stats.tx_ok += 1;
                }
                let fired = out.tx.as_ref().map_or(false, |t| t.fault_fired);
                if fired && fail_msg.is_some() {
                    self.stats.fault("fail_msg");
                }
                if fired && fail_query.is_some() {
                    self.stats.fault("fail_query");
                }
                if let Some(a) = &action {
                    if a.act.is_market() && !a.act.is_deposit() && !funds.is_empty() {
                        self.stats.fault("attach_coins");
                    }
                    if prop.kinds.is_empty() || prop.kinds.contains(&a.act.kind()) {
                        self.stats.evaluations += 1;
                        count_case = true;
                    }
                }
            }
            Op::Advance { dt_ns, .. } => {
                self.stats.sim_ns += *dt_ns as u128;
                if *dt_ns > 3600 * 1_000_000_000 {
                    self.stats.fault("clock_jump");
                }
            }
            Op::SetAdmin { .. } => {
                if out.ok {
                    self.stats.fault("admin_change");
                }
            }
            _ => {}
        }
        findings.extend(self.mon.step(&pre, op, action.as_ref(), &out, &post, &self.sim.names));
        if count_case {
            self.stats.distinct.insert(self.mon.last_case);
        }
        self.obs = post;
        self.log_hash = fnv_mix(self.log_hash, op.short().as_bytes());
        self.log_hash = fnv_mix(self.log_hash, &[out.ok as u8]);
        self.log_hash = fnv_mix(self.log_hash, &self.sim.chain.state_hash().to_be_bytes());
        findings
    }
}

#[derive(Clone, Debug)]
pub struct Violation {
    pub finding: Finding,
    pub step: usize,
}

pub static COLLECT: std::sync::atomic::AtomicBool = std::sync::atomic::AtomicBool::new(false);

pub struct RunResult {
    pub collected: BTreeMap<(String, String), (u64, String)>,
    pub run: u64,
    pub mode: Mode,
    pub cfg: WorldCfg,
    pub ops: Vec<Op>,
    pub violation: Option<Violation>,
    pub known_hits: BTreeMap<usize, u64>,
    pub stats: Stats,
    pub reach: BTreeMap<&'static str, u64>,
    pub transitions: BTreeSet<u64>,
    pub state_classes: BTreeSet<u64>,
    pub interleavings: BTreeSet<u64>,
    pub log_hash: u64,
    pub harness_error: Option<String>,
}

fn relevant(f: &Finding, prop: &str) -> bool {
    f.prop() == prop || f.rule.starts_with("SIM.")
}

/// Generate and execute run `run` of the batch.
pub fn run_one(seed: u64, prop: &PropCfg, run: u64, known: &[KnownFinding]) -> RunResult {
    let mode = prop.modes[(run % prop.modes.len() as u64) as usize];
    let mut rng = Prng::for_run(seed, prop.id, run);
    let (mut cfg, amt) = gen::world_for(mode, &mut rng);
    if prop.id == "C18" {
        // the forwarding stub is the attacker of the C18 probes; it does not also trade there
        cfg.contract_trader = false;
    }
    let collect = COLLECT.load(Ordering::Relaxed);
    let mut res = RunResult {
        collected: BTreeMap::new(),
        run,
        mode,
        cfg: cfg.clone(),
        ops: vec![],
        violation: None,
        known_hits: BTreeMap::new(),
        stats: Stats::default(),
        reach: BTreeMap::new(),
        transitions: BTreeSet::new(),
        state_classes: BTreeSet::new(),
        interleavings: BTreeSet::new(),
        log_hash: 0,
        harness_error: None,
    };
    let mut exec = match Exec::new(&cfg, prop.faultenum) {
        Ok(e) => e,
        Err(e) => {
            res.harness_error = Some(format!("world set-up failed: {e}"));
            return res;
        }
    };
    let mut g = Gen::new(mode, rng, amt);
    g.attach = g.attach && prop.attach;
    g.prepare_script(&exec.obs, &exec.sim.names);
    let max_steps = match mode {
        Mode::BulkOwner => prop.max_steps + 900,
        Mode::RoyaltyStack | Mode::AssetStack => prop.max_steps + 120,
        _ => prop.max_steps,
    };
    // thorough tier: every fourth run is three times as long (deeper histories, more re-use of records)
    let max_steps = if probes::THOROUGH.load(Ordering::Relaxed) && run % 4 == 3 { max_steps * 3 } else { max_steps };
    let mut pending_probe = false;
    while exec.steps < max_steps {
        let op = if pending_probe {
            pending_probe = false;
            let (k, _, _) = prop.probe.unwrap();
            Op::Probe { kind: k.to_string(), arg: g.rng.next_u64() >> 16 }
        } else {
            let op = g.next(&exec.sim, &exec.obs);
            if let Some((_, num, den)) = prop.probe {
                if g.script_empty() && g.rng.chance(num, den) {
                    pending_probe = true;
                }
            }
            op
        };
        let findings = exec.step(&op, prop);
        res.ops.push(op);
        let mut stop = false;
        for f in findings {
            if !relevant(&f, prop.id) {
                continue;
            }
            if f.rule.starts_with("SIM.") {
                res.harness_error = Some(format!("{}: {}", f.rule, f.detail));
                stop = true;
                break;
            }
            if let Some(i) = is_known(known, &f) {
                *res.known_hits.entry(i).or_insert(0) += 1;
                continue;
            }
            if collect {
                let e = res.collected.entry((f.rule.to_string(), f.sig.clone())).or_insert((0, f.detail.clone()));
                e.0 += 1;
                continue;
            }
            res.violation = Some(Violation { finding: f, step: exec.steps });
            stop = true;
            break;
        }
        if stop {
            break;
        }
    }
    if exec.stats.samples.is_empty() {
        let shown: Vec<String> = res.ops.iter().filter(|o| !matches!(o, Op::Advance { .. })).take(14).map(|o| o.short()).collect();
        exec.stats.samples.push(format!("run {run} mode {:?}: {}", mode, shown.join(" ; ")));
    }
    for (k, v) in &g.counters {
        *exec.stats.faults.entry(k).or_insert(0) += v;
    }
    res.stats = exec.stats.clone();
    res.reach = exec.mon.reach.clone();
    res.transitions = exec.mon.transitions.clone();
    res.state_classes = exec.mon.state_classes.clone();
    res.interleavings = exec.mon.listing_seq.values().map(|v| v.0).collect();
    res.log_hash = exec.log_hash;
    res
}

// ------------------------------------------------------------------------------------------
// Replay + minimisation
// ------------------------------------------------------------------------------------------

#[derive(Clone, Debug, Serialize, Deserialize)]
pub struct ReplayFile {
    pub version: u32,
    pub property: String,
    pub rule: String,
    pub signature: String,
    pub seed: u64,
    pub run: u64,
    pub tier: String,
    pub mode: String,
    pub world: WorldCfg,
    pub steps: Vec<Op>,
    pub violation: ReplayViolation,
    pub log_hash: String,
}

#[derive(Clone, Debug, Serialize, Deserialize)]
pub struct ReplayViolation {
    pub step: usize,
    pub detail: String,
}

pub struct TraceOutcome {
    pub violation: Option<Violation>,
    pub log_hash: u64,
    pub harness_error: Option<String>,
}

/// Execute a concrete trace; stop at the first violation of `prop` that is not a known finding
/// (or, with `want_rule`, at the first finding of exactly that rule).
pub fn exec_trace(cfg: &WorldCfg, ops: &[Op], prop: &PropCfg, known: &[KnownFinding], want_rule: Option<&str>) -> TraceOutcome {
    let mut exec = match Exec::new(cfg, prop.faultenum) {
        Ok(e) => e,
        Err(e) => return TraceOutcome { violation: None, log_hash: 0, harness_error: Some(e) },
    };
    for op in ops {
        let findings = exec.step(op, prop);
        for f in findings {
            if !relevant(&f, prop.id) {
                continue;
            }
            if f.rule.starts_with("SIM.") {
                return TraceOutcome { violation: None, log_hash: exec.log_hash, harness_error: Some(f.detail) };
            }
            if let Some(r) = want_rule {
                if f.rule != r {
                    continue;
                }
            }
            if is_known(known, &f).is_some() {
                continue;
            }
            return TraceOutcome {
                violation: Some(Violation { finding: f, step: exec.steps }),
                log_hash: exec.log_hash,
                harness_error: None,
            };
        }
    }
    TraceOutcome { violation: None, log_hash: exec.log_hash, harness_error: None }
}

/// Delta debugging on the op list, then per-op simplification.  Capped by a COUNT of
/// re-executions so that the minimised trace is itself a deterministic function of the input.
pub fn minimise(cfg: &WorldCfg, ops: &[Op], prop: &PropCfg, known: &[KnownFinding], rule: &str, budget: usize) -> Vec<Op> {
    let mut cur: Vec<Op> = ops.to_vec();
    let mut used = 0usize;
    let fails = |cand: &[Op], used: &mut usize| -> bool {
        *used += 1;
        exec_trace(cfg, cand, prop, known, Some(rule)).violation.is_some()
    };
    // truncate after the violating step first
    if let Some(v) = exec_trace(cfg, &cur, prop, known, Some(rule)).violation {
        cur.truncate(v.step);
    }
    let mut n = 2usize;
    while cur.len() >= 2 && used < budget {
        let chunk = (cur.len() + n - 1) / n;
        let mut reduced = false;
        let mut i = 0;
        while i < cur.len() && used < budget {
            let end = (i + chunk).min(cur.len());
            let mut cand: Vec<Op> = cur[..i].to_vec();
            cand.extend_from_slice(&cur[end..]);
            if !cand.is_empty() && fails(&cand, &mut used) {
                cur = cand;
                n = n.saturating_sub(1).max(2);
                reduced = true;
                break;
            }
            i += chunk;
        }
        if !reduced {
            if chunk <= 1 {
                break;
            }
            n = (n * 2).min(cur.len());
        }
    }
    // one-by-one removal pass
    let mut i = 0;
    while i < cur.len() && used < budget && cur.len() > 1 {
        let mut cand = cur.clone();
        cand.remove(i);
        if fails(&cand, &mut used) {
            cur = cand;
        } else {
            i += 1;
        }
    }
    // per-op simplification: drop faults, attached coins on non-deposits stay (they may be the point)
    for i in 0..cur.len() {
        if used >= budget {
            break;
        }
        let mut cand = cur.clone();
        let mut changed = false;
        if let Op::Tx { fail_msg, fail_query, .. } = &mut cand[i] {
            if fail_msg.is_some() || fail_query.is_some() {
                *fail_msg = None;
                *fail_query = None;
                changed = true;
            }
        }
        if let Op::Advance { dt_ns, dblocks } = &mut cand[i] {
            if *dblocks > 0 && *dt_ns > 0 {
                *dblocks = 0;
                changed = true;
            }
        }
        if changed && fails(&cand, &mut used) {
            cur = cand;
        }
    }
    if let Some(v) = exec_trace(cfg, &cur, prop, known, Some(rule)).violation {
        cur.truncate(v.step);
    }
    cur
}

// ------------------------------------------------------------------------------------------
// Batches
// ------------------------------------------------------------------------------------------

pub struct BatchResult {
    pub collected: BTreeMap<(String, String), (u64, String)>,
    pub runs_done: u64,
    pub first_violation: Option<RunResult>,
    pub known_hits: BTreeMap<usize, u64>,
    pub stats: Stats,
    pub reach: BTreeMap<&'static str, u64>,
    pub transitions: BTreeSet<u64>,
    pub state_classes: BTreeSet<u64>,
    pub interleavings: BTreeSet<u64>,
    pub modes: BTreeMap<String, u64>,
    pub harness_error: Option<String>,
    pub log_hashes: Vec<(u64, u64)>,
    pub steps_total: u64,
}

pub fn run_batch(seed: u64, prop: &PropCfg, known: &[KnownFinding], workers: usize, keep_hashes: bool) -> BatchResult {
    let next = Arc::new(AtomicU64::new(0));
    let min_bad = Arc::new(AtomicU64::new(u64::MAX));
    let results: Arc<Mutex<Vec<RunResult>>> = Arc::new(Mutex::new(vec![]));
    let total = prop.runs;
    std::thread::scope(|s| {
        for _ in 0..workers.max(1) {
            let next = next.clone();
            let min_bad = min_bad.clone();
            let results = results.clone();
            s.spawn(move || {
                loop {
                    let i = next.fetch_add(1, Ordering::SeqCst);
                    if i >= total || i > min_bad.load(Ordering::SeqCst) {
                        break;
                    }
                    // a panic of the harness itself (not of contract code, which is caught at the call
                    // boundary) must surface as a harness error with its location, never as a silent exit
                    let mut r = match std::panic::catch_unwind(std::panic::AssertUnwindSafe(|| run_one(seed, prop, i, known))) {
                        Ok(r) => r,
                        Err(_) => {
                            let mode = prop.modes[(i % prop.modes.len() as u64) as usize];
                            let mut rng = Prng::for_run(seed, prop.id, i);
                            let (cfg, _) = gen::world_for(mode, &mut rng);
                            RunResult {
                                collected: BTreeMap::new(),
                                run: i,
                                mode,
                                cfg,
                                ops: vec![],
                                violation: None,
                                known_hits: BTreeMap::new(),
                                stats: Stats::default(),
                                reach: BTreeMap::new(),
                                transitions: BTreeSet::new(),
                                state_classes: BTreeSet::new(),
                                interleavings: BTreeSet::new(),
                                log_hash: 0,
                                harness_error: Some(format!("internal panic in the harness: {}", crate::chain::last_panic())),
                            }
                        }
                    };
                    if r.violation.is_some() || r.harness_error.is_some() {
                        min_bad.fetch_min(i, Ordering::SeqCst);
                    } else {
                        // keep memory flat: traces of clean runs are not needed
                        r.ops = vec![];
                    }
                    results.lock().unwrap().push(r);
                }
            });
        }
    });
    let mut all = Arc::try_unwrap(results).ok().unwrap().into_inner().unwrap();
    all.sort_by_key(|r| r.run);
    let cutoff = min_bad.load(Ordering::SeqCst);
    let mut b = BatchResult {
        collected: BTreeMap::new(),
        runs_done: 0,
        first_violation: None,
        known_hits: BTreeMap::new(),
        stats: Stats::default(),
        reach: BTreeMap::new(),
        transitions: BTreeSet::new(),
        state_classes: BTreeSet::new(),
        interleavings: BTreeSet::new(),
        modes: BTreeMap::new(),
        harness_error: None,
        log_hashes: vec![],
        steps_total: 0,
    };
    for r in all {
        if r.run > cutoff {
            continue;
        }
        b.runs_done += 1;
        for (k, v) in &r.collected {
            let e = b.collected.entry(k.clone()).or_insert((0, v.1.clone()));
            e.0 += v.0;
        }
        b.stats.merge(&r.stats);
        for (k, v) in &r.reach {
            *b.reach.entry(k).or_insert(0) += v;
        }
        for (k, v) in &r.known_hits {
            *b.known_hits.entry(*k).or_insert(0) += v;
        }
        b.transitions.extend(r.transitions.iter().cloned());
        b.state_classes.extend(r.state_classes.iter().cloned());
        b.interleavings.extend(r.interleavings.iter().cloned());
        *b.modes.entry(format!("{:?}", r.mode)).or_insert(0) += 1;
        b.steps_total += r.stats.txs + r.stats.probes;
        if keep_hashes {
            b.log_hashes.push((r.run, r.log_hash));
        }
        if r.run == cutoff {
            if let Some(e) = &r.harness_error {
                b.harness_error = Some(format!("run {}: {}", r.run, e));
            }
            if r.violation.is_some() {
                b.first_violation = Some(r);
            }
        }
    }
    b
}
