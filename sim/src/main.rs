mod chain;
mod contracts;
mod msgs;
mod obs;
mod ops;
mod prng;
mod proto;
mod world;

use ops::{Fund, Op, Sim};
use world::{CollCfg, WorldCfg};

fn main() {
    std::panic::set_hook(Box::new(|_| {}));
    let cfg = WorldCfg {
        users: 3,
        natives: vec!["ujunox".into(), "uusdcx".into(), "uatom".into()],
        n_cw20: 2,
        colls: vec![CollCfg { admin: Some("adm0".into()), sloppy: false }, CollCfg { admin: None, sloppy: false }],
        native_amt: 1_000_000,
        cw20_amt: 1_000_000,
        nfts_per_user: 2,
        lenient_bank: false,
        start_ns: 1_600_000_000_123_456_789,
        start_height: 1000,
    };
    let sim = Sim::new(&cfg).unwrap();
    let m = sim.names.market.clone();
    println!("{:?}", sim.names);
    let f = |d: &str, a: u128| vec![Fund { denom: d.into(), amount: a }];
    let ask = |d: &str, a: u128| msgs::AskSpec { native: vec![(d.into(), a)], ..Default::default() };
    let ops = vec![
        Op::tx("user0", &m, msgs::create_listing(1, &ask("ujunox", 1000), None), f("uatom", 500)),
        Op::tx("user0", &m, msgs::finalize(1, 600), vec![]),
        Op::tx("user1", &m, msgs::create_bucket(1), f("ujunox", 1000)),
        Op::tx("user1", &m, msgs::buy(1, 1), vec![]),
        Op::tx("user0", &m, msgs::create_listing(2, &ask("ujunox", 995), None), f("uatom", 7)),
        Op::tx("user0", &m, msgs::finalize(2, 600), vec![]),
        Op::tx("user2", &m, msgs::create_bucket(2), f("ujunox", 995)),
        // user0 now owns bucket 1 (995 + fee 5); list something asking 995 by user2, buy with bucket 1
        Op::tx("user2", &m, msgs::create_listing(3, &ask("ujunox", 995), None), f("uatom", 9)),
        Op::tx("user2", &m, msgs::finalize(3, 600), vec![]),
        Op::tx("user0", &m, msgs::buy(3, 1), vec![]),
        Op::tx("user2", &m, msgs::remove_bucket(1), vec![]),
        Op::tx("user0", &m, msgs::withdraw_purchased(3), vec![]),
        Op::tx("user1", &m, msgs::withdraw_purchased(1), vec![]),
        Op::tx("user0", &sim.names.cw20s[0], msgs::cw20_send(&m, 50, &msgs::inner_create_bucket_cw20(9)), vec![]),
        Op::tx("user0", &sim.names.colls[0], msgs::cw721_send(&m, "1", &msgs::inner_add_to_bucket_cw721(9)), vec![]),
        Op::tx("adm0", &sim.names.registry, msgs::reg_register(&sim.names.colls[0], "pay0", 300), vec![]),
    ];
    for op in &ops {
        let r = sim.apply(op);
        println!("{} => ok={} {}", op.short(), r.ok, r.err);
        if let Some(t) = &r.tx { for d in &t.dispatched { println!("    dispatch {:?}", d); } for p in &t.pool_msgs { println!("    pool {:?}", p);} }
    }
    let o = sim.observe();
    for l in &o.listings { println!("L {} {} {:?} goods {} ask {} fee {:?}", l.key_owner, l.id, l.status, l.goods.describe(), l.ask.describe(), l.fee); }
    for b in &o.buckets { println!("B {} {} funds {} fee {:?}", b.key_owner, b.key_id, b.funds.describe(), b.fee); }
    println!("market bank: {:?}", o.bank.iter().filter(|((a,_),_)| *a == m).collect::<Vec<_>>());
    println!("pool: {:?} registry {:?}", o.pool, o.registry);
    println!("hash {:x}", sim.chain.state_hash());
}
