//! fzsim — deterministic simulation with fault injection for Hypnos-Labs/fuzion_market.
//!
//! usage: fzsim check <Cxx> <quick|thorough>      one property, one tier
//!        fzsim replay <file>                     re-execute a replay file (exit 1 = reproduced)
//!        fzsim hashes <Cxx> <runs>               per-run event-log hashes (determinism proof)
//!        fzsim trace <Cxx> <run>                 print the generated history of one run
//!
//! exit codes: 0 property held on everything explored (or only known findings), 1 violation,
//! 2 harness error.

mod chain;
mod contracts;
#[cfg(feature = "fidelity")]
mod fidelity;
mod gen;
mod monitor;
mod msgs;
mod obs;
mod ops;
mod prng;
mod probes;
mod proto;
mod run;
mod spec;
mod world;

use std::collections::BTreeMap;
use std::time::Instant;

use gen::Mode;
use run::{load_known, PropCfg, ReplayFile, ReplayViolation};
use serde_json::json;

const DEFAULT_SEED: u64 = 20260926;

const ALL_KINDS: &[&str] = &[];
const NONE_KINDS: &[&str] = &["__probe_only"];

fn prop_cfg(id: &str, thorough: bool) -> Option<PropCfg> {
    use Mode::*;
    let t = thorough;
    let pick = |q: u64, th: u64| if t { th } else { q };
    let c = match id {
        "C01" => PropCfg {
            id: "C01",
            modes: vec![General, Faulty, Flipper, RoyaltyStack, CycleHeavy, ExpiryRace, AssetStack, Flipper],
            probe: None,
            faultenum: false,
            attach: false,
            runs: pick(16000, 80000),
            max_steps: 110,
            kinds: ALL_KINDS,
        },
        "C02" => PropCfg {
            id: "C02",
            modes: vec![General, Flipper, ExpiryRace, RoyaltyStack, BadInput, ExpiryRace],
            probe: Some(("buy_triples", 1, if t { 5 } else { 12 })),
            faultenum: false,
            attach: false,
            runs: pick(12000, 60000),
            max_steps: 110,
            kinds: &["buy_listing"],
        },
        "C03" => PropCfg {
            id: "C03",
            modes: vec![ExpiryRace, General, Flipper, Faulty],
            probe: None,
            faultenum: false,
            attach: false,
            runs: pick(16000, 80000),
            max_steps: 120,
            kinds: &["buy_listing", "withdraw_purchased", "remove_bucket", "delete_listing"],
        },
        "C04" => PropCfg {
            id: "C04",
            modes: vec![General, Flipper, ExpiryRace, Faulty, RoyaltyStack, RegistryHeavy],
            probe: Some(("nonowner", 1, if t { 6 } else { 20 })),
            faultenum: false,
            attach: false,
            runs: pick(6000, 30000),
            max_steps: 100,
            kinds: ALL_KINDS,
        },
        "C05" => PropCfg {
            id: "C05",
            modes: vec![General, AssetStack, Flipper, Faulty, RoyaltyStack, BadInput, CycleHeavy],
            probe: None,
            faultenum: false,
            attach: false,
            runs: pick(16000, 80000),
            max_steps: 110,
            kinds: &[
                "create_listing", "add_to_listing", "create_bucket", "add_to_bucket", "delete_listing",
                "remove_bucket", "withdraw_purchased",
            ],
        },
        "C06" => PropCfg {
            id: "C06",
            modes: vec![General, Flipper, RoyaltyStack, CycleHeavy, RegistryHeavy, Flipper],
            probe: None,
            faultenum: false,
            attach: false,
            runs: pick(16000, 80000),
            max_steps: 110,
            kinds: &["buy_listing"],
        },
        "C07" => PropCfg {
            id: "C07",
            modes: vec![General, Flipper, Faulty, ExpiryRace, RoyaltyStack, AssetStack, CycleHeavy],
            probe: Some(("drain", 1, if t { 2 } else { 5 })),
            faultenum: false,
            attach: false,
            runs: pick(12000, 50000),
            max_steps: 110,
            kinds: &["delete_listing", "remove_bucket", "withdraw_purchased"],
        },
        "C08" => PropCfg {
            id: "C08",
            modes: vec![General, ExpiryRace, BadInput, Flipper],
            probe: None,
            faultenum: false,
            attach: false,
            runs: pick(16000, 80000),
            max_steps: 110,
            kinds: &["finalize", "change_ask", "add_to_listing", "delete_listing", "buy_listing"],
        },
        "C09" => PropCfg {
            id: "C09",
            modes: vec![BadInput, General, ExpiryRace, Flipper],
            probe: None,
            faultenum: false,
            attach: false,
            runs: pick(16000, 80000),
            max_steps: 110,
            kinds: &["create_listing", "create_bucket"],
        },
        "C10" => PropCfg {
            id: "C10",
            modes: vec![Flipper, CycleHeavy, General, Faulty],
            probe: None,
            faultenum: false,
            attach: false,
            runs: pick(16000, 80000),
            max_steps: 120,
            kinds: &["buy_listing", "withdraw_purchased", "remove_bucket"],
        },
        "C11" => PropCfg {
            id: "C11",
            modes: vec![RoyaltyStack, RoyaltyStack, RegistryHeavy, General],
            probe: None,
            faultenum: false,
            attach: false,
            runs: pick(8000, 40000),
            max_steps: 60,
            kinds: &["buy_listing"],
        },
        "C12" => PropCfg {
            id: "C12",
            modes: vec![BadInput, AssetStack, General, Flipper, RoyaltyStack, BadInput],
            probe: None,
            faultenum: false,
            attach: false,
            runs: pick(12000, 80000),
            max_steps: 110,
            kinds: &["create_listing", "add_to_listing", "create_bucket", "add_to_bucket", "change_ask", "buy_listing"],
        },
        "C13" => PropCfg {
            id: "C13",
            modes: vec![CycleHeavy, CycleHeavy, General, Flipper],
            probe: None,
            faultenum: false,
            attach: false,
            runs: pick(16000, 80000),
            max_steps: 120,
            kinds: &["fee_cycle", "buy_listing"],
        },
        "C14" => PropCfg {
            id: "C14",
            modes: vec![RegistryHeavy, RegistryHeavy, General, RoyaltyStack],
            probe: Some(("registry_lookup", 1, if t { 3 } else { 6 })),
            faultenum: false,
            attach: false,
            runs: pick(12000, 60000),
            max_steps: 110,
            kinds: &["register", "update", "remove"],
        },
        "C15" => PropCfg {
            id: "C15",
            modes: vec![General, Flipper, RoyaltyStack, AssetStack, CycleHeavy],
            probe: None,
            faultenum: true,
            attach: false,
            runs: pick(6000, 40000),
            max_steps: 90,
            kinds: NONE_KINDS,
        },
        "C16" => PropCfg {
            id: "C16",
            modes: vec![General, ExpiryRace, BulkOwner, CycleHeavy, ExpiryRace, Flipper],
            probe: Some(("queries", 1, if t { 6 } else { 15 })),
            faultenum: false,
            attach: false,
            runs: pick(1000, 5000),
            max_steps: 100,
            kinds: NONE_KINDS,
        },
        "C18" => PropCfg {
            id: "C18",
            modes: vec![General, Flipper, ExpiryRace],
            probe: Some(("hostile", 1, if t { 6 } else { 15 })),
            faultenum: false,
            attach: false,
            runs: pick(6000, 20000),
            max_steps: 90,
            kinds: NONE_KINDS,
        },
        "C19" => PropCfg {
            id: "C19",
            modes: vec![Faulty, BadInput, General, Flipper, CycleHeavy],
            probe: Some(("coins", 1, if t { 4 } else { 10 })),
            faultenum: false,
            attach: true,
            runs: pick(10000, 50000),
            max_steps: 100,
            kinds: &[
                "change_ask", "finalize", "delete_listing", "remove_bucket", "buy_listing", "withdraw_purchased",
                "fee_cycle", "direct_receive",
            ],
        },
        _ => return None,
    };
    Some(c)
}

fn level_of(id: &str) -> &'static str {
    if id == "C15" {
        "fault_enumeration"
    } else {
        "exploration"
    }
}

fn seed_from_env() -> u64 {
    match std::env::var("VERIF_SEED") {
        Ok(s) => s.trim().parse::<u64>().unwrap_or_else(|_| prng::fnv1a(s.as_bytes())),
        Err(_) => DEFAULT_SEED,
    }
}

fn workers() -> usize {
    std::env::var("FZ_WORKERS").ok().and_then(|s| s.parse().ok()).unwrap_or(16)
}

fn main() {
    let args: Vec<String> = std::env::args().collect();
    chain::install_panic_hook();
    let code = match args.get(1).map(|s| s.as_str()) {
        Some("check") => cmd_check(&args),
        Some("replay") => cmd_replay(&args),
        Some("hashes") => cmd_hashes(&args),
        Some("trace") => cmd_trace(&args),
        Some("survey") => cmd_survey(&args),
        Some("props") => {
            for id in ["C01", "C02", "C03", "C04", "C05", "C06", "C07", "C08", "C09", "C10", "C11", "C12", "C13", "C14", "C15", "C16", "C18", "C19"] {
                let q = prop_cfg(id, false).unwrap();
                let t = prop_cfg(id, true).unwrap();
                let mut modes: Vec<String> = q.modes.iter().map(|m| format!("{:?}", m)).collect();
                modes.dedup();
                modes.sort();
                modes.dedup();
                let probe = |c: &PropCfg| c.probe.map(|(k, n, d)| format!("{k} after {n}/{d} of steps")).unwrap_or_else(|| if c.faultenum { "fault enumeration around every dispatching tx".into() } else { "—".into() });
                println!("| {id} | {} | {} / {} | {} | {} | {} |", modes.join(", "), q.runs, t.runs, q.max_steps, probe(&q), probe(&t));
            }
            0
        }
        #[cfg(feature = "fidelity")]
        Some("fidelity") => fidelity::run(seed_from_env(), args.get(2).and_then(|s| s.parse().ok()).unwrap_or(300)),
        _ => {
            eprintln!("usage: fzsim check <Cxx> <quick|thorough> | replay <file> | hashes <Cxx> <runs> | trace <Cxx> <run>");
            2
        }
    };
    std::process::exit(code);
}

fn cmd_check(args: &[String]) -> i32 {
    let id = args.get(2).cloned().unwrap_or_default();
    let tier = args.get(3).cloned().unwrap_or_else(|| std::env::var("VERIF_TIER").unwrap_or_else(|_| "quick".into()));
    let thorough = tier == "thorough";
    probes::THOROUGH.store(thorough, std::sync::atomic::Ordering::Relaxed);
    let Some(mut prop) = prop_cfg(&id, thorough) else {
        eprintln!("unknown property {id}");
        return 2;
    };
    if let Ok(r) = std::env::var("FZ_RUNS") {
        if let Ok(n) = r.parse() {
            prop.runs = n;
        }
    }
    // validation tooling only (tools/sensitivity.sh): run a fraction of the tier's budget
    if let Ok(d) = std::env::var("FZ_RUNS_DIV") {
        if let Ok(n) = d.parse::<u64>() {
            prop.runs = (prop.runs / n.max(1)).max(200);
        }
    }
    let seed = seed_from_env();
    let known = load_known("known_findings.json");
    println!("fzsim check {id} tier={tier} VERIF_SEED={seed} runs={} workers={}", prop.runs, workers());
    let t0 = Instant::now();
    let b = run::run_batch(seed, &prop, &known, workers(), false);
    let wall = t0.elapsed().as_secs_f64();

    if let Some(e) = &b.harness_error {
        eprintln!("HARNESS-ERROR property={id} {e}");
        return 2;
    }

    let mut violations = 0;
    let mut replay_path = String::new();
    let mut violation_text = String::new();
    if let Some(v) = &b.first_violation {
        violations = 1;
        let viol = v.violation.as_ref().unwrap();
        let rule = viol.finding.rule;
        let minimal = run::minimise(&v.cfg, &v.ops, &prop, &known, rule, 400);
        let out = run::exec_trace(&v.cfg, &minimal, &prop, &known, Some(rule));
        let (steps, fin, hash) = match out.violation {
            Some(x) => (minimal, x, out.log_hash),
            None => {
                // minimisation must never lose the violation; fall back to the original trace
                let o = run::exec_trace(&v.cfg, &v.ops, &prop, &known, Some(rule));
                match o.violation {
                    Some(x) => (v.ops.clone(), x, o.log_hash),
                    None => {
                        eprintln!("HARNESS-ERROR property={id} violation of {rule} in run {} does not re-execute", v.run);
                        return 2;
                    }
                }
            }
        };
        let rf = ReplayFile {
            version: 1,
            property: id.clone(),
            rule: rule.to_string(),
            signature: fin.finding.sig.clone(),
            seed,
            run: v.run,
            tier: tier.clone(),
            mode: format!("{:?}", v.mode),
            world: v.cfg.clone(),
            steps,
            violation: ReplayViolation { step: fin.step, detail: fin.finding.detail.clone() },
            log_hash: format!("{:016x}", hash),
        };
        let _ = std::fs::create_dir_all("replays");
        replay_path = format!("replays/{id}-{seed}-{}.json", v.run);
        std::fs::write(&replay_path, serde_json::to_string_pretty(&rf).unwrap()).expect("write replay file");
        // the replay must reproduce in a fresh process before anything is reported
        let exe = std::env::current_exe().unwrap();
        let st = std::process::Command::new(exe).arg("replay").arg(&replay_path).arg("--quiet").status();
        match st {
            Ok(s) if s.code() == Some(1) => {}
            other => {
                eprintln!("HARNESS-ERROR property={id} replay of {replay_path} did not reproduce in a fresh process: {:?}", other);
                return 2;
            }
        }
        violation_text = format!("{} [{}] at step {} of run {}: {}", rule, fin.finding.sig, fin.step, v.run, fin.finding.detail);
    }

    write_evidence(&id, &tier, seed, &prop, &b, wall, violations, &known);

    for (i, k) in known.iter().enumerate() {
        if k.property == id && k.status != "fixed" {
            let n = b.known_hits.get(&i).copied().unwrap_or(0);
            println!("KNOWN-FINDING: property={id} {} [{} / {}] (seen {}x in this batch)", k.what, k.rule, k.signature, n);
        }
    }
    if violations > 0 {
        println!("violation: {violation_text}");
        println!("VIOLATION property={id} replay={replay_path}");
        return 1;
    }
    println!(
        "OK property={id} runs={} steps={} evaluations={} distinct={} wall={:.1}s",
        b.runs_done,
        b.steps_total,
        b.stats.evaluations,
        b.stats.distinct.len(),
        wall
    );
    0
}

fn reach_wanted(id: &str) -> &'static [&'static str] {
    match id {
        "C01" => &[
            "buy_fee_both_sides", "buy_royalty_paid", "proceeds_bucket_reused", "withdraw_with_fee", "remove_bucket_with_fee",
            "fee_in_juno", "fee_in_usdc", "fault_fired_msg",
        ],
        "C02" => &[
            "buy_ok", "buy_refused_bucket_not_owned", "buy_refused_not_finalized", "buy_refused_sold", "buy_refused_whitelist",
            "buy_refused_mismatch", "buy_refused_expired", "buy_refused_royalty_cap", "proceeds_bucket_reused", "self_purchase",
            "buy_at_exp_minus_1ns", "buy_at_exp_plus_1ns", "whitelisted_purchase", "triple_probe_valid_purchase",
        ],
        "C03" => &["buy_ok", "race_loser_with_matching_bucket", "buy_refused_sold", "withdraw_ok", "remove_bucket_ok", "delete_expired_ok"],
        "C04" => &[
            "nonowner_vs_preparing", "nonowner_vs_finalized", "nonowner_vs_expired", "nonowner_vs_sold",
            "nonowner_vs_fresh_bucket", "nonowner_vs_proceeds_bucket", "refused_not_owner",
        ],
        "C05" => &[
            "create_listing_native", "create_listing_cw20", "create_listing_cw721", "add_to_listing_native", "add_to_listing_cw20",
            "add_to_listing_cw721", "create_bucket_native", "create_bucket_cw20", "create_bucket_cw721", "add_to_bucket_native",
            "add_to_bucket_cw20", "add_to_bucket_cw721", "withdraw_with_fee", "remove_bucket_with_fee", "delete_preparing_ok",
            "delete_expired_ok", "merged_topup",
        ],
        "C06" => &[
            "fee_in_juno", "fee_in_usdc", "buy_royalty_paid", "two_nfts_of_one_registered_collection", "royalty_both_sides",
            "rate_changed_between_finalize_and_buy", "buy_fee_both_sides",
        ],
        "C07" => &["drain_bucket", "drain_proceeds_bucket", "drain_preparing", "drain_sold", "drain_finalized_after_expiry", "fault_fired_msg"],
        "C08" => &[
            "finalize_599", "finalize_600", "finalize_1209600", "finalize_1209601", "refused_not_preparing", "refused_early_delete",
            "delete_at_exp_minus_1ns", "delete_at_exp_plus_1ns",
        ],
        "C09" => &["refused_id_reused", "refused_illegal_id"],
        "C10" => &[
            "pool_msg_seen", "withdraw_with_fee", "remove_bucket_with_fee", "proceeds_bucket_reused_with_pending_fee",
            "fee_paid_after_denom_switch", "cycle_with_pending_fee", "fault_fired_msg",
        ],
        "C11" => &["buy_at_exactly_5000bps", "buy_refused_royalty_cap", "buy_royalty_paid", "two_nfts_of_one_registered_collection"],
        "C12" => &["refused_bad_deposit", "refused_bad_ask", "refused_over_25", "topup_to_25", "merged_topup", "refused_dup_nft"],
        "C13" => &[
            "cycle_week_minus_1s", "cycle_at_week", "cycle_week_plus_1s", "cycle_ok", "second_cycle_same_second",
            "cycle_with_pending_fee", "fee_in_usdc", "fee_in_juno", "cycle_in_week_second_but_less_than_a_week",
            "carried_fee_in_other_denom_at_purchase",
        ],
        "C14" => &[
            "register_ok", "update_ok", "remove_ok", "partial_update_ok", "refused_reg_cooldown", "refused_reg_not_admin",
            "refused_reg_bps", "refused_reg_not_contract", "admin_change", "multi_lookup_with_duplicates",
            "multi_lookup_mixed_registered_unregistered",
        ],
        "C15" => &[
            "fault_on_bank_send", "fault_on_cw20_transfer", "fault_on_nft_transfer", "fault_on_royalty_bank_send",
            "fault_on_royalty_cw20_transfer", "fault_on_pool_deposit", "fault_on_cw20_hook", "fault_on_cw721_hook", "fault_on_query",
        ],
        "C16" => &[
            "owner_with_over_240_buckets", "page_above_12_nonempty", "expired_within_current_second",
            "expiring_within_current_second", "whitelist_query_with_sold_or_expired", "fee_query_before_switch",
            "fee_query_after_switch", "set_check_at_forked_expiry_instant", "max_lifetime_listing_in_its_last_second",
        ],
        "C18" => &[
            "hostile_vs_preparing", "hostile_vs_finalized", "hostile_vs_sold", "hostile_vs_bucket", "hostile_vs_proceeds_bucket",
        ],
        "C19" => &[
            "coins_on_message_that_would_succeed", "coins_on_message_that_would_fail", "coins_on_receive_entry_point",
            "refused_coins_attached", "several_denoms_on_receive_entry_point", "coins_on_due_fee_cycle",
        ],
        _ => &[],
    }
}

fn rule_text(id: &str) -> String {
    if id == "C15" {
        return "cases = fault placements: for EVERY transaction of the explored histories that succeeds on a fork and dispatches at least \
one outgoing message (or issues a cross-contract query), EVERY message position i (any depth, depth-first order) and every query position j is \
failed in turn on a fresh fork — exhaustive within each operation, while the operations themselves come from seeded histories; each case checks: \
the faulted operation returns an error, the state hash is unchanged, and a retry on the same fork succeeds and reaches exactly the state of the \
un-faulted execution. A case is distinct and non-trivial when its tuple (fault kind, operation kind, class of the failed message [bank send, \
CW20 transfer, NFT transfer, royalty bank send, royalty CW20 transfer, community-pool deposit, CW20 hook, CW721 hook], outcome, position \
first/middle/last, number of dispatches bucketed, depth) has not been seen before — counted with a hash set".to_string();
    }
    let base = "cases = oracle evaluations: every executed transaction whose message kind is relevant to this property \
(judged after the step against the reference model re-seeded from the observed real pre-state, plus the cross-invariants \
and history monitors) and every fork-probe case; a case is distinct and non-trivial when its tuple (message kind or probe case kind, deposit path, \
outcome, fault fired, fee denomination in force, model verdict with its refusal reasons, class of the targeted record(s) in the pre-state \
[lifecycle stage, expired?, pending fee?, number of fungibles/NFTs capped at 3, whitelisted?, owned by the sender?, royalties due on either side?]) \
has not been seen before in this batch — counted with a hash set";
    format!("{base}; property {id}")
}

fn write_evidence(id: &str, tier: &str, seed: u64, prop: &PropCfg, b: &run::BatchResult, wall: f64, violations: i32, known: &[run::KnownFinding]) {
    let wanted = reach_wanted(id);
    let mut reach: BTreeMap<String, u64> = BTreeMap::new();
    for (k, v) in &b.reach {
        reach.insert(k.to_string(), *v);
    }
    let mut missing: Vec<&str> = vec![];
    for w in wanted {
        if reach.get(*w).copied().unwrap_or(0) == 0 {
            missing.push(w);
            reach.insert(w.to_string(), 0);
        }
    }
    if !missing.is_empty() && violations == 0 {
        eprintln!("reach: property {id}: probes not hit in this batch: {:?}", missing);
    }
    let known_list: Vec<serde_json::Value> = known
        .iter()
        .enumerate()
        .filter(|(_, k)| k.property == id)
        .map(|(i, k)| json!({"rule": k.rule, "signature": k.signature, "status": k.status, "seen": b.known_hits.get(&i).copied().unwrap_or(0)}))
        .collect();
    let faults: BTreeMap<String, u64> = b.stats.faults.iter().map(|(k, v)| (k.to_string(), *v)).collect();
    let ev = json!({
        "property_id": id,
        "tier": tier,
        "seed": seed,
        "level": level_of(id),
        "coverage": {
            "evaluations": b.stats.evaluations,
            "distinct_nontrivial": b.stats.distinct.len(),
            "rule": rule_text(id),
            "samples": b.stats.samples,
            "exhaustive": false,
            "runs": b.runs_done,
            "runs_requested": prop.runs,
            "transactions": b.stats.txs,
            "transactions_succeeded": b.stats.tx_ok,
            "probes": b.stats.probes,
            "probe_cases": b.stats.probe_cases,
            "runs_per_hour": if wall > 0.0 { (b.runs_done as f64 / wall * 3600.0) as u64 } else { 0 },
            "seeds_per_hour_note": "one run = one derived PRNG stream of VERIF_SEED; runs_per_hour is also seeds per hour",
            "simulated_seconds_covered": b.stats.sim_ns / 1_000_000_000,
            "fault_kinds_fired": faults,
            "swarm_modes": b.modes,
            "distinct_state_classes": b.state_classes.len(),
            "distinct_transitions": b.transitions.len(),
            "distinct_interleavings_per_listing": b.interleavings.len(),
            "interleaving_measure": "distinct sequences of (actor role in order of first appearance, message kind, outcome) aimed at one listing id over its whole life",
            "reach_probes": reach,
            "reach_ok": missing.is_empty(),
            "reach_missing": missing,
            "known_findings": known_list,
            "components_real": ["marketplace (/repo)", "royalty (/repo)", "royalties (/repo)", "cw20-base 1.0.1", "cw721-base 0.16.0",
                                "cosmwasm-std 1.3.1", "cw-storage-plus", "cw-utils", "anybuf"],
            "components_stub": ["transaction/rollback engine", "sub-message router (reply_on semantics)", "bank", "community pool + protobuf decoder",
                                "block clock", "address validation (cosmwasm MockApi)", "querier", "user/admin/bystander actors",
                                "hostile token contract", "sloppy CW721 stub", "fault injector"],
        },
        "assumptions": [
            "sampling, not proof: bounded histories from a seeded scheduler; a clean batch is evidence",
            "chain stub trusted: no gas, no bech32, monotone clock, strict cosmos-sdk bank rules for outgoing sends",
            "contracts run natively (same source and serialisers as the wasm build), overflow checks on",
            "honest-token worlds exclude token-level delegation and direct sends to the market address",
        ],
        "wall_s": wall,
        "violations": violations,
    });
    let _ = std::fs::create_dir_all("evidence");
    std::fs::write(format!("evidence/{id}.json"), serde_json::to_string_pretty(&ev).unwrap()).expect("write evidence");
}

fn cmd_replay(args: &[String]) -> i32 {
    let Some(path) = args.get(2) else {
        eprintln!("usage: fzsim replay <file>");
        return 2;
    };
    let quiet = args.iter().any(|a| a == "--quiet");
    let text = match std::fs::read_to_string(path) {
        Ok(t) => t,
        Err(e) => {
            eprintln!("cannot read {path}: {e}");
            return 2;
        }
    };
    let rf: ReplayFile = match serde_json::from_str(&text) {
        Ok(r) => r,
        Err(e) => {
            eprintln!("cannot parse {path}: {e}");
            return 2;
        }
    };
    let thorough = rf.tier == "thorough";
    probes::THOROUGH.store(thorough, std::sync::atomic::Ordering::Relaxed);
    let Some(prop) = prop_cfg(&rf.property, thorough) else {
        eprintln!("unknown property {}", rf.property);
        return 2;
    };
    let known = load_known("known_findings.json");
    let out = run::exec_trace(&rf.world, &rf.steps, &prop, &known, Some(&rf.rule));
    if let Some(e) = out.harness_error {
        eprintln!("HARNESS-ERROR during replay: {e}");
        return 2;
    }
    match out.violation {
        Some(v) => {
            let same_hash = format!("{:016x}", out.log_hash) == rf.log_hash;
            if !quiet {
                for (i, s) in rf.steps.iter().enumerate() {
                    println!("  {:3}. {}", i + 1, s.short());
                }
                println!("reproduced: {} [{}] at step {}: {}", v.finding.rule, v.finding.sig, v.step, v.finding.detail);
                println!("log hash {:016x} ({})", out.log_hash, if same_hash { "identical to the recorded one" } else { "DIFFERS from the recorded one" });
                println!("VIOLATION property={} replay={}", rf.property, path);
            }
            if v.step != rf.violation.step || !same_hash {
                eprintln!("replay reproduced the rule but not the exact execution (step {} vs {}, hash match {})", v.step, rf.violation.step, same_hash);
                return 2;
            }
            1
        }
        None => {
            if !quiet {
                println!("not reproduced: the recorded history no longer violates {}", rf.rule);
            }
            0
        }
    }
}

fn cmd_hashes(args: &[String]) -> i32 {
    let id = args.get(2).cloned().unwrap_or_default();
    let runs: u64 = args.get(3).and_then(|s| s.parse().ok()).unwrap_or(64);
    let Some(mut prop) = prop_cfg(&id, false) else { return 2 };
    prop.runs = runs;
    let known = load_known("known_findings.json");
    let b = run::run_batch(seed_from_env(), &prop, &known, workers(), true);
    for (r, h) in &b.log_hashes {
        println!("{id} {r} {:016x}", h);
    }
    println!("{id} evaluations {} distinct {} transitions {}", b.stats.evaluations, b.stats.distinct.len(), b.transitions.len());
    0
}

fn cmd_trace(args: &[String]) -> i32 {
    let id = args.get(2).cloned().unwrap_or_default();
    let run_no: u64 = args.get(3).and_then(|s| s.parse().ok()).unwrap_or(0);
    let Some(prop) = prop_cfg(&id, false) else { return 2 };
    let known = load_known("known_findings.json");
    let r = run::run_one(seed_from_env(), &prop, run_no, &known);
    println!("mode {:?} world {}", r.mode, serde_json::to_string(&r.cfg).unwrap());
    let mut exec = run::Exec::new(&r.cfg, prop.faultenum).unwrap();
    for (i, op) in r.ops.iter().enumerate() {
        let f = exec.step(op, &prop);
        println!("{:4}. {}", i + 1, op.short());
        for x in f {
            println!("        !! {} [{}] {}", x.rule, x.sig, x.detail);
        }
    }
    println!("reach {:?}", r.reach);
    if let Some(v) = r.violation {
        println!("violation at step {}: {} {}", v.step, v.finding.rule, v.finding.detail);
    }
    0
}

/// triage helper: run a batch without stopping and list every distinct (rule, signature) found
fn cmd_survey(args: &[String]) -> i32 {
    let id = args.get(2).cloned().unwrap_or_default();
    let runs: u64 = args.get(3).and_then(|s| s.parse().ok()).unwrap_or(300);
    let thorough = args.get(4).map_or(false, |s| s == "thorough");
    probes::THOROUGH.store(thorough, std::sync::atomic::Ordering::Relaxed);
    let Some(mut prop) = prop_cfg(&id, thorough) else { return 2 };
    prop.runs = runs;
    run::COLLECT.store(true, std::sync::atomic::Ordering::Relaxed);
    let known = if args.iter().any(|a| a == "--ignore-known") { vec![] } else { load_known("known_findings.json") };
    let b = run::run_batch(seed_from_env(), &prop, &known, workers(), false);
    for ((rule, sig), (n, detail)) in &b.collected {
        println!("{n:8}  {rule}  [{sig}]  e.g. {}", &detail[..detail.len().min(200)]);
    }
    println!("runs {} known hits {:?} harness_error {:?}", b.runs_done, b.known_hits, b.harness_error);
    0
}
