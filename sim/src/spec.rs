//! Reference model (`spec_step`): written from the property statements (DESIGN.md Appendix A),
//! not from the code.  Records are multisets of assets, arithmetic is exact, there is no
//! storage, no serialisation and no index.  It is re-seeded from the OBSERVED real pre-state at
//! every step, so a disagreement never accumulates.

use std::collections::{BTreeMap, BTreeSet};

use serde_json::Value;

use crate::msgs::{unb64, AskSpec};
use crate::obs::{Assets, BRec, Fung, LRec, NftId, Obs, RegEntry, St};
use crate::ops::{Fund, Op};
use crate::world::Names;

pub const MAX_ID: u64 = 9007199254740990;
pub const WEEK: u64 = 604800;
pub const MAX_ASSETS: usize = 25;

// ------------------------------------------------------------------------------------------
// Actions
// ------------------------------------------------------------------------------------------

#[derive(Clone, Debug, PartialEq)]
pub enum Deposit {
    /// the attached coins exactly as sent (may contain zeros / duplicates / be empty)
    Native(Vec<Fund>),
    Cw20 { token: String, amount: u128 },
    Nft { coll: String, tid: String },
}

impl Deposit {
    pub fn path(&self) -> &'static str {
        match self {
            Deposit::Native(_) => "native",
            Deposit::Cw20 { .. } => "cw20",
            Deposit::Nft { .. } => "cw721",
        }
    }
    pub fn invalid(&self) -> bool {
        match self {
            Deposit::Native(f) => {
                if f.is_empty() || f.iter().any(|c| c.amount == 0) {
                    return true;
                }
                let s: BTreeSet<&str> = f.iter().map(|c| c.denom.as_str()).collect();
                s.len() != f.len()
            }
            Deposit::Cw20 { amount, .. } => *amount == 0,
            Deposit::Nft { .. } => false,
        }
    }
    pub fn assets(&self) -> Assets {
        let mut a = Assets::default();
        match self {
            Deposit::Native(f) => {
                for c in f {
                    let e = a.fung.entry(Fung::Native(c.denom.clone())).or_insert(0);
                    *e = e.saturating_add(c.amount);
                }
            }
            Deposit::Cw20 { token, amount } => {
                a.fung.insert(Fung::Cw20(token.clone()), *amount);
            }
            Deposit::Nft { coll, tid } => {
                a.nfts.insert((coll.clone(), tid.clone()));
            }
        }
        a
    }
}

#[derive(Clone, Debug, PartialEq)]
pub enum Act {
    CreateListing { id: u64, ask: AskSpec, wl: Option<String>, dep: Deposit },
    AddToListing { id: u64, dep: Deposit },
    ChangeAsk { id: u64, ask: AskSpec },
    Finalize { id: u64, secs: u64 },
    DeleteListing { id: u64 },
    CreateBucket { id: u64, dep: Deposit },
    AddToBucket { id: u64, dep: Deposit },
    RemoveBucket { id: u64 },
    Buy { lid: u64, bid: u64 },
    Withdraw { id: u64 },
    FeeCycle,
    Register { coll: String, payout: String, bps: u64 },
    Update { coll: String, payout: Option<String>, bps: Option<u64> },
    Remove { coll: String },
    /// an externally owned account calling a receive entry point of the market directly
    DirectReceive,
    /// token-level traffic that does not involve the market (bystander transfers)
    TokenOther,
    /// anything the model has no opinion about (malformed JSON, unknown target, …)
    Unknown,
}

impl Act {
    pub fn kind(&self) -> &'static str {
        match self {
            Act::CreateListing { .. } => "create_listing",
            Act::AddToListing { .. } => "add_to_listing",
            Act::ChangeAsk { .. } => "change_ask",
            Act::Finalize { .. } => "finalize",
            Act::DeleteListing { .. } => "delete_listing",
            Act::CreateBucket { .. } => "create_bucket",
            Act::AddToBucket { .. } => "add_to_bucket",
            Act::RemoveBucket { .. } => "remove_bucket",
            Act::Buy { .. } => "buy_listing",
            Act::Withdraw { .. } => "withdraw_purchased",
            Act::FeeCycle => "fee_cycle",
            Act::Register { .. } => "register",
            Act::Update { .. } => "update",
            Act::Remove { .. } => "remove",
            Act::DirectReceive => "direct_receive",
            Act::TokenOther => "token_other",
            Act::Unknown => "unknown",
        }
    }
    pub fn is_deposit(&self) -> bool {
        matches!(
            self,
            Act::CreateListing { .. } | Act::AddToListing { .. } | Act::CreateBucket { .. } | Act::AddToBucket { .. }
        )
    }
    pub fn is_payout(&self) -> bool {
        matches!(self, Act::DeleteListing { .. } | Act::RemoveBucket { .. } | Act::Withdraw { .. })
    }
    pub fn is_registry(&self) -> bool {
        matches!(self, Act::Register { .. } | Act::Update { .. } | Act::Remove { .. })
    }
    pub fn is_market(&self) -> bool {
        !matches!(self, Act::Register { .. } | Act::Update { .. } | Act::Remove { .. } | Act::TokenOther | Act::Unknown)
    }
    pub fn dep(&self) -> Option<&Deposit> {
        match self {
            Act::CreateListing { dep, .. }
            | Act::AddToListing { dep, .. }
            | Act::CreateBucket { dep, .. }
            | Act::AddToBucket { dep, .. } => Some(dep),
            _ => None,
        }
    }
}

#[derive(Clone, Debug, PartialEq)]
pub struct Action {
    pub sender: String,
    pub act: Act,
    /// coins attached to a message that goes to the market directly
    pub attached: Vec<Fund>,
    /// reached the market through a token contract's send hook
    pub via_hook: bool,
}

fn u64_of(v: &Value, k: &str) -> Option<u64> {
    v.get(k)?.as_u64()
}

fn parse_create_msg(v: &Value) -> Option<(AskSpec, Option<String>)> {
    let cm = v.get("create_msg")?;
    let ask = AskSpec::from_json(cm.get("ask")?)?;
    let wl = match cm.get("whitelisted_buyer") {
        None | Some(Value::Null) => None,
        Some(Value::String(s)) => Some(s.clone()),
        _ => return None,
    };
    Some((ask, wl))
}

fn one_key(v: &Value) -> Option<(&String, &Value)> {
    let m = v.as_object()?;
    if m.len() != 1 {
        return None;
    }
    m.iter().next()
}

/// Understand a transaction the way the property statements talk about it.
pub fn classify(op: &Op, names: &Names) -> Option<Action> {
    let Op::Tx { from, to, msg, funds, .. } = op else { return None };
    let unknown = || Some(Action { sender: from.clone(), act: Act::Unknown, attached: funds.clone(), via_hook: false });
    let Some((key, body)) = one_key(msg) else { return unknown() };
    if *to == names.market {
        let native = Deposit::Native(funds.clone());
        let act = match key.as_str() {
            "create_listing" => {
                let (Some(id), Some((ask, wl))) = (u64_of(body, "listing_id"), parse_create_msg(body)) else {
                    return unknown();
                };
                Act::CreateListing { id, ask, wl, dep: native }
            }
            "add_to_listing" => match u64_of(body, "listing_id") {
                Some(id) => Act::AddToListing { id, dep: native },
                None => return unknown(),
            },
            "change_ask" => {
                let (Some(id), Some(ask)) =
                    (u64_of(body, "listing_id"), body.get("new_ask").and_then(AskSpec::from_json))
                else {
                    return unknown();
                };
                Act::ChangeAsk { id, ask }
            }
            "finalize" => match (u64_of(body, "listing_id"), u64_of(body, "seconds")) {
                (Some(id), Some(secs)) => Act::Finalize { id, secs },
                _ => return unknown(),
            },
            "delete_listing" => match u64_of(body, "listing_id") {
                Some(id) => Act::DeleteListing { id },
                None => return unknown(),
            },
            "create_bucket" => match u64_of(body, "bucket_id") {
                Some(id) => Act::CreateBucket { id, dep: native },
                None => return unknown(),
            },
            "add_to_bucket" => match u64_of(body, "bucket_id") {
                Some(id) => Act::AddToBucket { id, dep: native },
                None => return unknown(),
            },
            "remove_bucket" => match u64_of(body, "bucket_id") {
                Some(id) => Act::RemoveBucket { id },
                None => return unknown(),
            },
            "buy_listing" => match (u64_of(body, "listing_id"), u64_of(body, "bucket_id")) {
                (Some(lid), Some(bid)) => Act::Buy { lid, bid },
                _ => return unknown(),
            },
            "withdraw_purchased" => match u64_of(body, "listing_id") {
                Some(id) => Act::Withdraw { id },
                None => return unknown(),
            },
            "fee_cycle" => Act::FeeCycle,
            "receive" | "receive_nft" => Act::DirectReceive,
            _ => return unknown(),
        };
        return Some(Action { sender: from.clone(), act, attached: funds.clone(), via_hook: false });
    }
    if *to == names.registry {
        let act = match key.as_str() {
            "register" => Act::Register {
                coll: body.get("nft_contract")?.as_str()?.to_string(),
                payout: body.get("payout_addr")?.as_str()?.to_string(),
                bps: body.get("bps")?.as_u64()?,
            },
            "update" => Act::Update {
                coll: body.get("nft_contract")?.as_str()?.to_string(),
                payout: body.get("new_payout_addr").and_then(|v| v.as_str()).map(|s| s.to_string()),
                bps: body.get("new_bps").and_then(|v| v.as_u64()),
            },
            "remove" => Act::Remove { coll: body.get("nft_contract")?.as_str()?.to_string() },
            _ => return unknown(),
        };
        return Some(Action { sender: from.clone(), act, attached: funds.clone(), via_hook: false });
    }
    // a contract account acting for itself: `forward` to the market / registry / a token contract is judged
    // as that inner message sent by the contract account (with the coins it forwards)
    if *to == names.hostile && key == "forward" && funds.is_empty() {
        let inner_to = body.get("contract").and_then(|c| c.as_str());
        let inner_msg = body.get("msg").and_then(|m| m.as_str()).and_then(unb64);
        let inner_funds: Option<Vec<Fund>> = body.get("funds").and_then(|f| f.as_array()).map(|a| {
            a.iter()
                .filter_map(|c| {
                    Some(Fund { denom: c.get("denom")?.as_str()?.to_string(), amount: c.get("amount")?.as_str()?.parse().ok()? })
                })
                .collect()
        });
        if let (Some(t), Some(m), Some(f)) = (inner_to, inner_msg, inner_funds) {
            let is_receive = m.as_object().map_or(false, |o| o.contains_key("receive") || o.contains_key("receive_nft"));
            if t != names.hostile && !is_receive {
                let inner = Op::Tx { from: names.hostile.clone(), to: t.to_string(), msg: m, funds: f, fail_msg: None, fail_query: None };
                return classify(&inner, names);
            }
        }
        return unknown();
    }
    let is20 = names.is_cw20(to);
    let is721 = names.is_coll(to);
    if (is20 || is721) && funds.is_empty() {
        let hook_key = if is20 { "send" } else { "send_nft" };
        if key == hook_key && body.get("contract").and_then(|c| c.as_str()) == Some(names.market.as_str()) {
            let Some(inner) = body.get("msg").and_then(|m| m.as_str()).and_then(unb64) else { return unknown() };
            let Some((ikey, ibody)) = one_key(&inner) else { return unknown() };
            let dep = if is20 {
                let Some(amount) = body.get("amount").and_then(|a| a.as_str()).and_then(|s| s.parse::<u128>().ok()) else {
                    return unknown();
                };
                Deposit::Cw20 { token: to.clone(), amount }
            } else {
                let Some(tid) = body.get("token_id").and_then(|a| a.as_str()) else { return unknown() };
                Deposit::Nft { coll: to.clone(), tid: tid.to_string() }
            };
            let sfx = if is20 { "_cw20" } else { "_cw721" };
            let Some(base) = ikey.strip_suffix(sfx) else { return unknown() };
            let act = match base {
                "create_listing" => {
                    let (Some(id), Some((ask, wl))) = (u64_of(ibody, "listing_id"), parse_create_msg(ibody)) else {
                        return unknown();
                    };
                    Act::CreateListing { id, ask, wl, dep }
                }
                "add_to_listing" => match u64_of(ibody, "listing_id") {
                    Some(id) => Act::AddToListing { id, dep },
                    None => return unknown(),
                },
                "create_bucket" => match u64_of(ibody, "bucket_id") {
                    Some(id) => Act::CreateBucket { id, dep },
                    None => return unknown(),
                },
                "add_to_bucket" => match u64_of(ibody, "bucket_id") {
                    Some(id) => Act::AddToBucket { id, dep },
                    None => return unknown(),
                },
                _ => return unknown(),
            };
            return Some(Action { sender: from.clone(), act, attached: vec![], via_hook: true });
        }
        return Some(Action { sender: from.clone(), act: Act::TokenOther, attached: vec![], via_hook: false });
    }
    unknown()
}

// ------------------------------------------------------------------------------------------
// Verdicts
// ------------------------------------------------------------------------------------------

#[derive(Clone, Copy, Debug, PartialEq, Eq, PartialOrd, Ord)]
pub enum Reason {
    CoinsAttached,
    IllegalId,
    IdReused,
    BadDeposit,
    BadAsk,
    NotOwner,
    NotPreparing,
    Over25,
    DupNft,
    FinalizeBounds,
    EarlyDelete,
    SoldDelete,
    BuyBucketNotOwned,
    BuyNoListing,
    BuyNotFinalized,
    BuySold,
    BuyWhitelist,
    BuyMismatch,
    BuyExpired,
    BuyRoyaltyCap,
    WithdrawNotEntitled,
    EarlyCycle,
    RegBps,
    RegBadAddr,
    RegNotContract,
    RegNotAdmin,
    RegExists,
    RegMissing,
    RegCooldown,
    ForgedHook,
    /// environment: the token contract or the bank refuses (insufficient balance, not the owner…)
    Obstacle,
}

impl Reason {
    pub fn is_env(&self) -> bool {
        matches!(self, Reason::Obstacle)
    }
    /// rules blamed when a message that had to fail for this reason succeeded
    pub fn rules(&self) -> &'static [&'static str] {
        match self {
            Reason::CoinsAttached => &["C19.coins_kept"],
            Reason::IllegalId => &["C09.illegal_id"],
            Reason::IdReused => &["C09.id_reused"],
            Reason::BadDeposit | Reason::BadAsk | Reason::Over25 | Reason::DupNft => &["C12.bad_input_accepted"],
            Reason::NotOwner | Reason::WithdrawNotEntitled | Reason::ForgedHook => &["C04.nonowner_success"],
            Reason::NotPreparing => &["C08.mutated"],
            Reason::FinalizeBounds => &["C08.finalize_bounds"],
            Reason::EarlyDelete => &["C08.early_delete"],
            // a sold listing leaving through the refund path skips its recorded fee
            Reason::SoldDelete => &["C08.status_regressed", "C10.fee_conservation", "C05.payout_delta"],
            Reason::BuyBucketNotOwned => &["C02.unexpected_success", "C04.nonowner_success"],
            // a purchase outside the published terms is also a non-owner changing the seller's listing
            Reason::BuyNoListing => &["C02.unexpected_success"],
            Reason::BuyNotFinalized | Reason::BuyWhitelist | Reason::BuyMismatch | Reason::BuyExpired => {
                &["C02.unexpected_success", "C04.invalid_purchase"]
            }
            Reason::BuySold => &["C02.unexpected_success", "C03.sold_twice", "C04.invalid_purchase"],
            Reason::BuyRoyaltyCap => &["C02.unexpected_success", "C11.over_half_accepted"],
            Reason::EarlyCycle => &["C13.early_cycle"],
            // whoever controls a collection's entry is paid out of other people's records at every trade
            Reason::RegNotAdmin => &["C14.unexpected_success", "C04.registry_hijack"],
            Reason::RegBps
            | Reason::RegBadAddr
            | Reason::RegNotContract
            | Reason::RegExists
            | Reason::RegMissing
            | Reason::RegCooldown => &["C14.unexpected_success"],
            Reason::Obstacle => &[],
        }
    }
}

#[derive(Clone, Debug, PartialEq)]
pub enum Verdict {
    Fail(Vec<Reason>),
    Succeed,
    Any,
}

/// History-dependent facts the model needs that the stored state cannot be trusted for.
#[derive(Clone, Debug)]
pub struct Ghost {
    pub ever_listing: BTreeSet<u64>,
    pub ever_bucket: BTreeSet<u64>,
    /// seconds component of the block time of instantiation / of the last successful cycle
    pub last_switch_s: u64,
    /// the full block time of that event
    pub last_switch_ns: u64,
}

pub fn valid_addr(s: &str) -> bool {
    // rule of cosmwasm's MockApi (the environment's address format, not the code under test)
    s.len() >= 3 && s.len() <= 90 && s.to_lowercase() == s && !s.ends_with('\0')
}

fn ask_invalid(a: &AskSpec) -> bool {
    if a.len() == 0 || a.len() > MAX_ASSETS {
        return true;
    }
    if a.native.iter().any(|(_, x)| *x == 0) || a.cw20.iter().any(|(_, x)| *x == 0) {
        return true;
    }
    let n: BTreeSet<&String> = a.native.iter().map(|(d, _)| d).collect();
    let c: BTreeSet<&String> = a.cw20.iter().map(|(d, _)| d).collect();
    let f: BTreeSet<&(String, String)> = a.nfts.iter().collect();
    n.len() != a.native.len() || c.len() != a.cw20.len() || f.len() != a.nfts.len()
}

fn ask_has_bad_addr(a: &AskSpec) -> bool {
    a.cw20.iter().any(|(t, _)| !valid_addr(t)) || a.nfts.iter().any(|(c, _)| !valid_addr(c))
}

pub fn ask_assets(a: &AskSpec) -> Assets {
    let mut r = Assets::default();
    for (d, x) in &a.native {
        r.fung.insert(Fung::Native(d.clone()), *x);
    }
    for (t, x) in &a.cw20 {
        r.fung.insert(Fung::Cw20(t.clone()), *x);
    }
    for n in &a.nfts {
        r.nfts.insert(n.clone());
    }
    r
}

fn deposit_obstacle(pre: &Obs, sender: &str, dep: &Deposit, names: &Names) -> bool {
    match dep {
        Deposit::Native(f) => {
            // the bank refuses what the sender does not have (summing duplicates)
            let mut need: BTreeMap<&str, u128> = BTreeMap::new();
            for c in f {
                let e = need.entry(c.denom.as_str()).or_insert(0);
                *e = e.saturating_add(c.amount);
            }
            need.iter().any(|(d, a)| pre.bal(sender, &Fung::Native(d.to_string())) < *a)
        }
        Deposit::Cw20 { token, amount } => {
            if names.is_sloppy20(token) {
                return false;
            }
            *amount == 0 || pre.bal(sender, &Fung::Cw20(token.clone())) < *amount
        }
        Deposit::Nft { coll, tid } => {
            let idx = names.colls.iter().position(|c| c == coll);
            if let Some(i) = idx {
                if names.sloppy[i] {
                    return false;
                }
            }
            pre.owner_of(&(coll.clone(), tid.clone())).map(|o| o.as_str()) != Some(sender)
        }
    }
}

/// strict cosmos-sdk bank: attached coins must be positive and duplicate-free, and covered
fn attached_refused_by_chain(pre: &Obs, sender: &str, funds: &[Fund], lenient: bool) -> bool {
    if funds.is_empty() {
        return false;
    }
    let dup = {
        let s: BTreeSet<&str> = funds.iter().map(|c| c.denom.as_str()).collect();
        s.len() != funds.len()
    };
    let zero = funds.iter().any(|c| c.amount == 0);
    if !lenient && (dup || zero) {
        return true;
    }
    if lenient && funds.iter().all(|c| c.amount == 0) {
        return true;
    }
    let mut need: BTreeMap<&str, u128> = BTreeMap::new();
    for c in funds {
        let e = need.entry(c.denom.as_str()).or_insert(0);
        *e = e.saturating_add(c.amount);
    }
    need.iter().any(|(d, a)| pre.bal(sender, &Fung::Native(d.to_string())) < *a)
}

pub fn fee_of(x: &Assets, denom: &str) -> Option<(String, u128)> {
    let amt = x.get(&Fung::Native(denom.to_string()));
    let f = amt / 1000 * 5 + (amt % 1000) * 5 / 1000;
    if f >= 1 {
        Some((denom.to_string(), f))
    } else {
        None
    }
}

pub fn minus_fee(x: &Assets, fee: &Option<(String, u128)>) -> Assets {
    let mut r = x.clone();
    if let Some((d, f)) = fee {
        if let Some(e) = r.fung.get_mut(&Fung::Native(d.clone())) {
            *e -= *f;
        }
    }
    r
}

/// floor(a * bps / 10000) without overflow for bps <= 10000
pub fn bps_of(a: u128, bps: u64) -> u128 {
    let b = bps as u128;
    (a / 10000) * b + (a % 10000) * b / 10000
}

/// registered, distinct collections among the NFTs of `x`, with their entries
pub fn side_royalties<'a>(x: &Assets, reg: &'a BTreeMap<String, RegEntry>) -> Vec<(&'a String, &'a RegEntry)> {
    let colls = x.collections();
    reg.iter().filter(|(c, _)| colls.contains(*c)).collect()
}

#[derive(Clone, Debug, PartialEq)]
pub struct LAbs {
    pub creator: String,
    pub id: u64,
    pub status: St,
    pub finalized: Option<u64>,
    pub expiration: Option<u64>,
    pub claimant: Option<String>,
    pub wl: Option<String>,
    pub goods: Assets,
    pub ask: Assets,
    /// None = do not compare (judged by the fee equation instead)
    pub fee: Option<Option<(String, u128)>>,
}

impl LAbs {
    pub fn of(l: &LRec) -> LAbs {
        LAbs {
            creator: l.creator.clone(),
            id: l.id,
            status: l.status,
            finalized: l.finalized,
            expiration: l.expiration,
            claimant: l.claimant.clone(),
            wl: l.wl.clone(),
            goods: l.goods.clone(),
            ask: l.ask.clone(),
            fee: Some(l.fee.clone()),
        }
    }
    pub fn matches(&self, l: &LRec) -> bool {
        self.creator == l.creator
            && self.id == l.id
            && self.status == l.status
            && self.finalized == l.finalized
            && self.expiration == l.expiration
            && self.claimant == l.claimant
            && self.wl == l.wl
            && self.goods == l.goods
            && self.ask == l.ask
            && self.fee.as_ref().map_or(true, |f| *f == l.fee)
    }
}

#[derive(Clone, Debug, PartialEq)]
pub struct BAbs {
    pub owner: String,
    pub funds: Assets,
    pub fee: Option<Option<(String, u128)>>,
}

impl BAbs {
    pub fn of(b: &BRec) -> BAbs {
        BAbs { owner: b.owner.clone(), funds: b.funds.clone(), fee: Some(b.fee.clone()) }
    }
    pub fn matches(&self, b: &BRec) -> bool {
        self.owner == b.owner && self.funds == b.funds && self.fee.as_ref().map_or(true, |f| *f == b.fee)
    }
}

/// What a successful message must do, as far as the properties say.
#[derive(Clone, Debug, Default)]
pub struct Effect {
    /// records (by storage key) that change: Some(new) or None (gone). All others must be untouched.
    pub listings: BTreeMap<(String, u64), Option<LAbs>>,
    pub buckets: BTreeMap<(String, u64), Option<BAbs>>,
    /// wallets of accounts other than the market: exact net change (gain, loss)
    pub gains: BTreeMap<(String, Fung), u128>,
    pub losses: BTreeMap<(String, Fung), u128>,
    /// NFTs that change hands: new owner
    pub nft_to: BTreeMap<NftId, String>,
    /// exact community-pool increase per denomination (ignored when `fee_eq` is set)
    pub pool: BTreeMap<String, u128>,
    /// purchase only: per denomination, fees newly charged + fees that were pending on the bucket
    /// before; must equal pending on both records afterwards + pool increase
    pub fee_eq: Option<BTreeMap<String, u128>>,
    /// purchase only: the fee newly charged on each side (listing side, bucket side)
    pub fee_new: (Option<(String, u128)>, Option<(String, u128)>),
    pub fee_flip: bool,
    pub registry: Option<(String, Option<RegEntry>)>,
    pub new_listing_id: Option<u64>,
    pub new_bucket_id: Option<u64>,
}

pub struct Expect {
    pub verdict: Verdict,
    pub effect: Option<Effect>,
    /// free-text facts for reach probes / evidence
    pub notes: Vec<&'static str>,
}

fn add_gain(e: &mut Effect, who: &str, a: &Assets) {
    for (f, x) in &a.fung {
        *e.gains.entry((who.to_string(), f.clone())).or_insert(0) += *x;
    }
    for n in &a.nfts {
        e.nft_to.insert(n.clone(), who.to_string());
    }
}

fn add_loss(e: &mut Effect, who: &str, a: &Assets, market: &str) {
    for (f, x) in &a.fung {
        *e.losses.entry((who.to_string(), f.clone())).or_insert(0) += *x;
    }
    for n in &a.nfts {
        e.nft_to.insert(n.clone(), market.to_string());
    }
}

/// Purchase predicate P of C02 evaluated on the observed pre-state; returns the reasons it is false.
pub fn buy_reasons(pre: &Obs, caller: &str, lid: u64, bid: u64) -> (Vec<Reason>, bool) {
    let mut r = vec![];
    let mut at_exp = false;
    let b = pre.bucket_at(caller, bid);
    if b.is_none() {
        r.push(Reason::BuyBucketNotOwned);
    }
    let l = pre.listing_by_id(lid);
    match l {
        None => r.push(Reason::BuyNoListing),
        Some(l) => {
            match l.status {
                St::Preparing => r.push(Reason::BuyNotFinalized),
                St::Sold => r.push(Reason::BuySold),
                St::Finalized => {}
            }
            if let Some(w) = &l.wl {
                if w != caller {
                    r.push(Reason::BuyWhitelist);
                }
            }
            if let Some(exp) = l.expiration {
                if pre.time_ns > exp {
                    r.push(Reason::BuyExpired);
                } else if pre.time_ns == exp {
                    at_exp = true;
                }
            }
            if let Some(b) = b {
                if b.funds != l.ask || b.shape.has_dup || l.ask_shape.has_dup {
                    r.push(Reason::BuyMismatch);
                }
                let fd = pre.fee_denom();
                let _ = fd;
                let s_sum: u64 = side_royalties(&l.goods, &pre.registry).iter().map(|(_, e)| e.bps).sum();
                let b_sum: u64 = side_royalties(&b.funds, &pre.registry).iter().map(|(_, e)| e.bps).sum();
                if s_sum > 5000 || b_sum > 5000 {
                    r.push(Reason::BuyRoyaltyCap);
                }
            }
        }
    }
    (r, at_exp)
}

/// Effect of a purchase for which P holds.
pub fn buy_effect(pre: &Obs, caller: &str, lid: u64, bid: u64, names: &Names) -> Effect {
    let l = pre.listing_by_id(lid).unwrap();
    let b = pre.bucket_at(caller, bid).unwrap();
    let seller = l.key_owner.clone();
    let d = pre.fee_denom();
    let fee_l = fee_of(&l.goods, d);
    let fee_b = fee_of(&b.funds, d);
    let g1 = minus_fee(&l.goods, &fee_l);
    let f1 = minus_fee(&b.funds, &fee_b);
    let rs = side_royalties(&l.goods, &pre.registry);
    let rb = side_royalties(&b.funds, &pre.registry);
    let mut e = Effect::default();
    let mut g2 = g1.clone();
    let mut f2 = f1.clone();
    // seller-side collections are paid out of the bucket
    for (_, ent) in &rs {
        for (x, amt) in &f1.fung {
            let pay = bps_of(*amt, ent.bps);
            if pay > 0 {
                *f2.fung.get_mut(x).unwrap() -= pay;
                *e.gains.entry((ent.payout.clone(), x.clone())).or_insert(0) += pay;
            }
        }
    }
    // buyer-side collections are paid out of the goods
    for (_, ent) in &rb {
        for (x, amt) in &g1.fung {
            let pay = bps_of(*amt, ent.bps);
            if pay > 0 {
                *g2.fung.get_mut(x).unwrap() -= pay;
                *e.gains.entry((ent.payout.clone(), x.clone())).or_insert(0) += pay;
            }
        }
    }
    // a payout address that is the market itself is outside the properties' assumptions
    e.gains.retain(|(who, _), _| *who != names.market);
    e.listings.insert((seller.clone(), lid), None);
    e.listings.insert(
        (caller.to_string(), lid),
        Some(LAbs {
            creator: caller.to_string(),
            id: lid,
            status: St::Sold,
            finalized: l.finalized,
            expiration: l.expiration,
            claimant: Some(caller.to_string()),
            wl: l.wl.clone(),
            goods: g2,
            ask: l.ask.clone(),
            fee: None,
        }),
    );
    e.buckets.insert((caller.to_string(), bid), None);
    e.buckets.insert((seller.clone(), bid), Some(BAbs { owner: seller, funds: f2, fee: None }));
    let mut eq: BTreeMap<String, u128> = BTreeMap::new();
    for f in [&fee_l, &fee_b, &b.fee].into_iter().flatten() {
        *eq.entry(f.0.clone()).or_insert(0) += f.1;
    }
    e.fee_eq = Some(eq);
    e.fee_new = (fee_l, fee_b);
    e
}

pub fn expect(pre: &Obs, a: &Action, names: &Names, ghost: &Ghost, lenient: bool) -> Expect {
    let s = a.sender.as_str();
    let mut reasons: Vec<Reason> = vec![];
    let mut any = false;
    let mut notes: Vec<&'static str> = vec![];
    let mut eff = Effect::default();
    let now = pre.time_ns;

    // coins attached to a message that is not a native deposit
    let native_deposit = matches!(a.act.dep(), Some(Deposit::Native(_))) && !a.via_hook;
    if a.act.is_market() && !native_deposit && !a.attached.is_empty() {
        reasons.push(Reason::CoinsAttached);
    }
    if a.act.is_market() && !a.via_hook && attached_refused_by_chain(pre, s, &a.attached, lenient) {
        reasons.push(Reason::Obstacle);
    }

    match &a.act {
        Act::CreateListing { id, ask, wl, dep } => {
            if *id == 0 || *id >= MAX_ID {
                reasons.push(Reason::IllegalId);
            }
            if ghost.ever_listing.contains(id) || pre.listing_by_id(*id).is_some() {
                reasons.push(Reason::IdReused);
            }
            if dep.invalid() {
                reasons.push(Reason::BadDeposit);
            }
            if ask_invalid(ask) {
                reasons.push(Reason::BadAsk);
            }
            if deposit_obstacle(pre, s, dep, names) {
                reasons.push(Reason::Obstacle);
            }
            if let Some(w) = wl {
                if !valid_addr(w) || w == s {
                    any = true;
                }
            }
            if ask_has_bad_addr(ask) {
                any = true;
            }
            let d = dep.assets();
            add_loss(&mut eff, s, &d, &names.market);
            eff.listings.insert(
                (s.to_string(), *id),
                Some(LAbs {
                    creator: s.to_string(),
                    id: *id,
                    status: St::Preparing,
                    finalized: None,
                    expiration: None,
                    claimant: None,
                    wl: wl.clone(),
                    goods: d,
                    ask: ask_assets(ask),
                    fee: Some(None),
                }),
            );
            eff.new_listing_id = Some(*id);
        }
        Act::AddToListing { id, dep } => {
            match pre.listing_at(s, *id) {
                None => reasons.push(Reason::NotOwner),
                Some(l) => {
                    if l.status != St::Preparing {
                        reasons.push(Reason::NotPreparing);
                    }
                    let d = dep.assets();
                    if d.nfts.iter().any(|n| l.goods.nfts.contains(n)) {
                        reasons.push(Reason::DupNft);
                    }
                    // an amount that does not fit 128 bits cannot be recorded: the deposit must be refused
                    if d.fung.iter().any(|(k, v)| l.goods.get(k).checked_add(*v).is_none()) {
                        reasons.push(Reason::BadDeposit);
                    }
                    let sum = l.goods.plus(&d);
                    if sum.count() > MAX_ASSETS {
                        reasons.push(Reason::Over25);
                    }
                    if sum.count() == MAX_ASSETS && l.goods.count() < MAX_ASSETS {
                        notes.push("topup_to_25");
                    }
                    if sum.count() == l.goods.count() {
                        notes.push("merged_topup");
                    }
                    let mut n = LAbs::of(l);
                    n.goods = sum;
                    add_loss(&mut eff, s, &d, &names.market);
                    eff.listings.insert((s.to_string(), *id), Some(n));
                }
            }
            if dep.invalid() {
                reasons.push(Reason::BadDeposit);
            }
            if deposit_obstacle(pre, s, dep, names) {
                reasons.push(Reason::Obstacle);
            }
        }
        Act::ChangeAsk { id, ask } => {
            match pre.listing_at(s, *id) {
                None => reasons.push(Reason::NotOwner),
                Some(l) => {
                    if l.status != St::Preparing {
                        reasons.push(Reason::NotPreparing);
                    }
                    let mut n = LAbs::of(l);
                    n.ask = ask_assets(ask);
                    eff.listings.insert((s.to_string(), *id), Some(n));
                }
            }
            if ask_invalid(ask) {
                reasons.push(Reason::BadAsk);
            }
            if ask_has_bad_addr(ask) {
                any = true;
            }
        }
        Act::Finalize { id, secs } => {
            match pre.listing_at(s, *id) {
                None => reasons.push(Reason::NotOwner),
                Some(l) => {
                    if l.status != St::Preparing {
                        reasons.push(Reason::NotPreparing);
                    }
                    let mut n = LAbs::of(l);
                    n.status = St::Finalized;
                    n.finalized = Some(now);
                    n.expiration = Some(now.saturating_add(secs.saturating_mul(1_000_000_000)));
                    eff.listings.insert((s.to_string(), *id), Some(n));
                }
            }
            if *secs < 600 || *secs > 1_209_600 {
                reasons.push(Reason::FinalizeBounds);
            }
        }
        Act::DeleteListing { id } => match pre.listing_at(s, *id) {
            None => reasons.push(Reason::NotOwner),
            Some(l) => {
                match l.status {
                    St::Sold => reasons.push(Reason::SoldDelete),
                    St::Finalized => {
                        let exp = l.expiration.unwrap_or(0);
                        if now < exp {
                            reasons.push(Reason::EarlyDelete);
                        } else if now == exp {
                            any = true;
                        }
                    }
                    St::Preparing => {}
                }
                add_gain(&mut eff, s, &l.goods);
                eff.listings.insert((s.to_string(), *id), None);
            }
        },
        Act::CreateBucket { id, dep } => {
            if *id == 0 || *id >= MAX_ID {
                reasons.push(Reason::IllegalId);
            }
            if ghost.ever_bucket.contains(id) || pre.bucket_by_id(*id).is_some() {
                reasons.push(Reason::IdReused);
            }
            if dep.invalid() {
                reasons.push(Reason::BadDeposit);
            }
            if deposit_obstacle(pre, s, dep, names) {
                reasons.push(Reason::Obstacle);
            }
            let d = dep.assets();
            add_loss(&mut eff, s, &d, &names.market);
            eff.buckets.insert((s.to_string(), *id), Some(BAbs { owner: s.to_string(), funds: d, fee: Some(None) }));
            eff.new_bucket_id = Some(*id);
        }
        Act::AddToBucket { id, dep } => {
            match pre.bucket_at(s, *id) {
                None => reasons.push(Reason::NotOwner),
                Some(b) => {
                    let d = dep.assets();
                    if d.nfts.iter().any(|n| b.funds.nfts.contains(n)) {
                        reasons.push(Reason::DupNft);
                    }
                    if d.fung.iter().any(|(k, v)| b.funds.get(k).checked_add(*v).is_none()) {
                        reasons.push(Reason::BadDeposit);
                    }
                    let sum = b.funds.plus(&d);
                    if sum.count() > MAX_ASSETS {
                        reasons.push(Reason::Over25);
                    }
                    if sum.count() == MAX_ASSETS && b.funds.count() < MAX_ASSETS {
                        notes.push("topup_to_25");
                    }
                    if sum.count() == b.funds.count() {
                        notes.push("merged_topup");
                    }
                    let mut n = BAbs::of(b);
                    n.funds = sum;
                    add_loss(&mut eff, s, &d, &names.market);
                    eff.buckets.insert((s.to_string(), *id), Some(n));
                }
            }
            if dep.invalid() {
                reasons.push(Reason::BadDeposit);
            }
            if deposit_obstacle(pre, s, dep, names) {
                reasons.push(Reason::Obstacle);
            }
        }
        Act::RemoveBucket { id } => match pre.bucket_at(s, *id) {
            None => reasons.push(Reason::NotOwner),
            Some(b) => {
                add_gain(&mut eff, s, &b.funds);
                if let Some((d, f)) = &b.fee {
                    eff.pool.insert(d.clone(), *f);
                }
                eff.buckets.insert((s.to_string(), *id), None);
            }
        },
        Act::Buy { lid, bid } => {
            let (rs, at_exp) = buy_reasons(pre, s, *lid, *bid);
            if rs.is_empty() {
                eff = buy_effect(pre, s, *lid, *bid, names);
                if at_exp {
                    any = true;
                }
            }
            reasons.extend(rs);
        }
        Act::Withdraw { id } => match pre.listing_by_id(*id) {
            Some(l) if l.status == St::Sold && l.key_owner == s && l.claimant.as_deref() == Some(s) => {
                add_gain(&mut eff, s, &l.goods);
                if let Some((d, f)) = &l.fee {
                    eff.pool.insert(d.clone(), *f);
                }
                eff.listings.insert((s.to_string(), *id), None);
            }
            _ => reasons.push(Reason::WithdrawNotEntitled),
        },
        Act::FeeCycle => {
            // refusal is judged on real elapsed time (nanoseconds): "never when fewer than 604800 seconds
            // have elapsed"; acceptance is demanded in whole seconds (the contract's clock reading is
            // second-granular): "once more than 604800 seconds have elapsed"
            let e = (now / 1_000_000_000).saturating_sub(ghost.last_switch_s);
            let real = now.saturating_sub(ghost.last_switch_ns);
            if real < WEEK * 1_000_000_000 {
                reasons.push(Reason::EarlyCycle);
            } else if e <= WEEK {
                any = true;
            }
            eff.fee_flip = true;
        }
        Act::Register { coll, payout, bps } => {
            if *bps < 10 || *bps > 300 {
                reasons.push(Reason::RegBps);
            }
            if !valid_addr(coll) {
                reasons.push(Reason::RegBadAddr);
            } else if !pre.admins.contains_key(coll) {
                reasons.push(Reason::RegNotContract);
            } else if pre.admins.get(coll).cloned().flatten().as_deref() != Some(s) {
                reasons.push(Reason::RegNotAdmin);
            }
            if pre.registry.contains_key(coll) {
                reasons.push(Reason::RegExists);
            }
            if !valid_addr(payout) {
                any = true;
            }
            eff.registry = Some((
                coll.clone(),
                Some(RegEntry { bps: *bps, payout: payout.clone(), last_updated: pre.height }),
            ));
        }
        Act::Update { coll, payout, bps } => {
            reg_common(pre, s, coll, &mut reasons);
            if let Some(b) = bps {
                if *b < 10 || *b > 300 {
                    reasons.push(Reason::RegBps);
                }
            }
            if let Some(p) = payout {
                if !valid_addr(p) {
                    any = true;
                }
            }
            if let Some(old) = pre.registry.get(coll) {
                eff.registry = Some((
                    coll.clone(),
                    Some(RegEntry {
                        bps: bps.unwrap_or(old.bps),
                        payout: payout.clone().unwrap_or_else(|| old.payout.clone()),
                        last_updated: pre.height,
                    }),
                ));
            }
        }
        Act::Remove { coll } => {
            reg_common(pre, s, coll, &mut reasons);
            eff.registry = Some((coll.clone(), None));
        }
        Act::DirectReceive => {
            // an externally owned account is not a token contract
            reasons.push(Reason::ForgedHook);
        }
        Act::TokenOther | Act::Unknown => {
            return Expect { verdict: Verdict::Any, effect: None, notes };
        }
    }

    reasons.sort();
    reasons.dedup();
    if !reasons.is_empty() {
        return Expect { verdict: Verdict::Fail(reasons), effect: None, notes };
    }
    Expect { verdict: if any { Verdict::Any } else { Verdict::Succeed }, effect: Some(eff), notes }
}

fn reg_common(pre: &Obs, s: &str, coll: &str, reasons: &mut Vec<Reason>) {
    if !valid_addr(coll) {
        reasons.push(Reason::RegBadAddr);
        return;
    }
    if !pre.admins.contains_key(coll) {
        reasons.push(Reason::RegNotContract);
        return;
    }
    if pre.admins.get(coll).cloned().flatten().as_deref() != Some(s) {
        reasons.push(Reason::RegNotAdmin);
    }
    match pre.registry.get(coll) {
        None => reasons.push(Reason::RegMissing),
        Some(e) => {
            if pre.height < e.last_updated.saturating_add(100) {
                reasons.push(Reason::RegCooldown);
            }
        }
    }
}
