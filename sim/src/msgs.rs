//! Builders for the concrete JSON messages of the alphabet (what a client would send).

use cosmwasm_std::Binary;
use serde_json::{json, Value};

use crate::obs::{Assets, Fung};

/// An ask as a client writes it: plain lists, so duplicates, zeros and any order can be expressed.
#[derive(Clone, Debug, Default, PartialEq, Eq)]
pub struct AskSpec {
    pub native: Vec<(String, u128)>,
    pub cw20: Vec<(String, u128)>,
    pub nfts: Vec<(String, String)>,
}

impl AskSpec {
    pub fn from_assets(a: &Assets) -> AskSpec {
        let mut s = AskSpec::default();
        for (f, amt) in &a.fung {
            match f {
                Fung::Native(d) => s.native.push((d.clone(), *amt)),
                Fung::Cw20(t) => s.cw20.push((t.clone(), *amt)),
            }
        }
        for (c, t) in &a.nfts {
            s.nfts.push((c.clone(), t.clone()));
        }
        s
    }
    pub fn len(&self) -> usize {
        self.native.len() + self.cw20.len() + self.nfts.len()
    }
    pub fn to_json(&self) -> Value {
        json!({
            "native": self.native.iter().map(|(d, a)| json!({"denom": d, "amount": a.to_string()})).collect::<Vec<_>>(),
            "cw20": self.cw20.iter().map(|(t, a)| json!({"address": t, "amount": a.to_string()})).collect::<Vec<_>>(),
            "nfts": self.nfts.iter().map(|(c, t)| json!({"contract_address": c, "token_id": t})).collect::<Vec<_>>(),
        })
    }
    pub fn from_json(v: &Value) -> Option<AskSpec> {
        let mut s = AskSpec::default();
        for c in v.get("native")?.as_array()? {
            s.native.push((c.get("denom")?.as_str()?.to_string(), c.get("amount")?.as_str()?.parse().ok()?));
        }
        for c in v.get("cw20")?.as_array()? {
            s.cw20.push((c.get("address")?.as_str()?.to_string(), c.get("amount")?.as_str()?.parse().ok()?));
        }
        for c in v.get("nfts")?.as_array()? {
            s.nfts.push((c.get("contract_address")?.as_str()?.to_string(), c.get("token_id")?.as_str()?.to_string()));
        }
        Some(s)
    }
}

pub fn b64(v: &Value) -> String {
    Binary(serde_json::to_vec(v).unwrap()).to_base64()
}

pub fn unb64(s: &str) -> Option<Value> {
    let b = Binary::from_base64(s).ok()?;
    serde_json::from_slice(b.as_slice()).ok()
}

pub fn create_msg(ask: &AskSpec, wl: Option<&str>) -> Value {
    json!({"ask": ask.to_json(), "whitelisted_buyer": wl})
}

// ---- direct market messages
pub fn create_listing(id: u64, ask: &AskSpec, wl: Option<&str>) -> Value {
    json!({"create_listing": {"listing_id": id, "create_msg": create_msg(ask, wl)}})
}
pub fn add_to_listing(id: u64) -> Value {
    json!({"add_to_listing": {"listing_id": id}})
}
pub fn change_ask(id: u64, ask: &AskSpec) -> Value {
    json!({"change_ask": {"listing_id": id, "new_ask": ask.to_json()}})
}
pub fn finalize(id: u64, seconds: u64) -> Value {
    json!({"finalize": {"listing_id": id, "seconds": seconds}})
}
pub fn delete_listing(id: u64) -> Value {
    json!({"delete_listing": {"listing_id": id}})
}
pub fn create_bucket(id: u64) -> Value {
    json!({"create_bucket": {"bucket_id": id}})
}
pub fn add_to_bucket(id: u64) -> Value {
    json!({"add_to_bucket": {"bucket_id": id}})
}
pub fn remove_bucket(id: u64) -> Value {
    json!({"remove_bucket": {"bucket_id": id}})
}
pub fn buy(listing: u64, bucket: u64) -> Value {
    json!({"buy_listing": {"listing_id": listing, "bucket_id": bucket}})
}
pub fn withdraw_purchased(id: u64) -> Value {
    json!({"withdraw_purchased": {"listing_id": id}})
}
pub fn fee_cycle() -> Value {
    json!({"fee_cycle": {}})
}

// ---- hook inner messages
pub fn inner_create_listing_cw20(id: u64, ask: &AskSpec, wl: Option<&str>) -> Value {
    json!({"create_listing_cw20": {"listing_id": id, "create_msg": create_msg(ask, wl)}})
}
pub fn inner_add_to_listing_cw20(id: u64) -> Value {
    json!({"add_to_listing_cw20": {"listing_id": id}})
}
pub fn inner_create_bucket_cw20(id: u64) -> Value {
    json!({"create_bucket_cw20": {"bucket_id": id}})
}
pub fn inner_add_to_bucket_cw20(id: u64) -> Value {
    json!({"add_to_bucket_cw20": {"bucket_id": id}})
}
pub fn inner_create_listing_cw721(id: u64, ask: &AskSpec, wl: Option<&str>) -> Value {
    json!({"create_listing_cw721": {"listing_id": id, "create_msg": create_msg(ask, wl)}})
}
pub fn inner_add_to_listing_cw721(id: u64) -> Value {
    json!({"add_to_listing_cw721": {"listing_id": id}})
}
pub fn inner_create_bucket_cw721(id: u64) -> Value {
    json!({"create_bucket_cw721": {"bucket_id": id}})
}
pub fn inner_add_to_bucket_cw721(id: u64) -> Value {
    json!({"add_to_bucket_cw721": {"bucket_id": id}})
}

// ---- token contract messages
pub fn cw20_send(contract: &str, amount: u128, inner: &Value) -> Value {
    json!({"send": {"contract": contract, "amount": amount.to_string(), "msg": b64(inner)}})
}
pub fn cw20_transfer(to: &str, amount: u128) -> Value {
    json!({"transfer": {"recipient": to, "amount": amount.to_string()}})
}
pub fn cw721_send(contract: &str, token_id: &str, inner: &Value) -> Value {
    json!({"send_nft": {"contract": contract, "token_id": token_id, "msg": b64(inner)}})
}
pub fn cw721_transfer(to: &str, token_id: &str) -> Value {
    json!({"transfer_nft": {"recipient": to, "token_id": token_id}})
}

// ---- market receive wrappers as a (hostile) contract would call them directly
pub fn market_receive(sender: &str, amount: u128, inner: &Value) -> Value {
    json!({"receive": {"sender": sender, "amount": amount.to_string(), "msg": b64(inner)}})
}
pub fn market_receive_nft(sender: &str, token_id: &str, inner: &Value) -> Value {
    json!({"receive_nft": {"sender": sender, "token_id": token_id, "msg": b64(inner)}})
}

// ---- registry
pub fn reg_register(coll: &str, payout: &str, bps: u64) -> Value {
    json!({"register": {"nft_contract": coll, "payout_addr": payout, "bps": bps}})
}
pub fn reg_update(coll: &str, payout: Option<&str>, bps: Option<u64>) -> Value {
    json!({"update": {"nft_contract": coll, "new_payout_addr": payout, "new_bps": bps}})
}
pub fn reg_remove(coll: &str) -> Value {
    json!({"remove": {"nft_contract": coll}})
}

// ---- hostile
pub fn hostile_forward(contract: &str, msg: &Value, funds: &[(String, u128)]) -> Value {
    json!({"forward": {
        "contract": contract,
        "msg": b64(msg),
        "funds": funds.iter().map(|(d, a)| json!({"denom": d, "amount": a.to_string()})).collect::<Vec<_>>()
    }})
}
pub fn hostile_set_fail(fail: bool) -> Value {
    json!({"set_fail": {"fail": fail}})
}
