//! Seeded generation of worlds and histories.  The scheduler is the only consumer of the PRNG.
//! Generation is a stochastic policy conditioned on the observed state (so that intents such as
//! "build a bucket that matches this ask, then buy" make real progress), mixed with free-form
//! messages, duplicates, sender swaps, attached coins, clock jumps and per-transaction faults.
//! Every generated op is concrete; replay never consults the generator.

use serde::{Deserialize, Serialize};
use serde_json::Value;

use crate::msgs::{self, AskSpec};
use crate::obs::{Assets, BRec, Fung, LRec, Obs, St};
use crate::ops::{Fund, Op, Sim};
use crate::prng::Prng;
use crate::world::{CollCfg, Names, WorldCfg, ADMINS, BYSTANDER, DEPLOYER, PAYOUTS};

#[derive(Clone, Copy, Debug, PartialEq, Eq, Serialize, Deserialize)]
pub enum Mode {
    /// everything, fault-free
    General,
    /// everything, with fail_msg / fail_query / duplicate / attached-coin faults
    Faulty,
    /// sale proceeds are re-used to buy again; self trades; fee-denomination switches in between
    Flipper,
    /// many collections registered so that a side's rates sum to 4990 / 5000 / 5010 / 7500
    RoyaltyStack,
    /// one account owns > 240 records (pagination)
    BulkOwner,
    /// 24 / 25 / 26 distinct assets in one record
    AssetStack,
    /// registry admins race around the cool-down; admin hand-over
    RegistryHeavy,
    /// fee cycling around the week mark, interleaved with trades
    CycleHeavy,
    /// buyers and sellers act at expiry ± δ; several buyers race for one listing
    ExpiryRace,
    /// zero / duplicate coins reach the contract (lenient bank), malformed asks, boundary ids
    BadInput,
}

pub const ALL_MODES: [Mode; 10] = [
    Mode::General,
    Mode::Faulty,
    Mode::Flipper,
    Mode::RoyaltyStack,
    Mode::BulkOwner,
    Mode::AssetStack,
    Mode::RegistryHeavy,
    Mode::CycleHeavy,
    Mode::ExpiryRace,
    Mode::BadInput,
];

#[derive(Clone, Copy, Debug, PartialEq, Eq)]
pub enum AmtClass {
    Small,
    Boundary,
    Large,
}

pub struct Gen {
    pub mode: Mode,
    pub rng: Prng,
    pub amt: AmtClass,
    pub faults: bool,
    pub attach: bool,
    pub swap_sender: bool,
    recent: Vec<Op>,
    next_id_hint: u64,
    /// scripted prelude still to be emitted (directed modes)
    script: std::collections::VecDeque<Op>,
    pending_ask: Option<(AskSpec, String, u128, String)>,
    pending_goods_nft: Option<(String, String)>,
    seen_listing_ids: std::collections::BTreeSet<u64>,
    seen_bucket_ids: std::collections::BTreeSet<u64>,
    /// generator-side fault / schedule events (duplicate delivery, foreign signer, boundary clock …)
    pub counters: std::collections::BTreeMap<&'static str, u64>,
    sloppy_sent: Vec<(String, String, bool, u64)>,
}

const BOUNDARY_IDS: [u64; 6] = [0, 1, 9007199254740989, 9007199254740990, 9007199254740991, u64::MAX];
const RATES: [u64; 10] = [10, 11, 100, 190, 199, 200, 201, 290, 299, 300];
// out of bounds, including values that look legal once truncated to 8 / 16 / 32 bits
const BAD_RATES: [u64; 12] = [0, 9, 301, 5000, u64::MAX, 512 + 100, 65_536 + 150, 4_294_967_296 + 10, 4_294_967_296 + 300, 4_294_967_296 * 7 + 200, 1 << 40, u64::MAX - 5];
const LIFETIMES: [u64; 8] = [600, 600, 601, 900, 3600, 86400, 1209599, 1209600];
// out of bounds, including values that look legal once truncated to 16 / 32 bits
const BAD_LIFETIMES: [u64; 11] = [0, 599, 1209601, 10_000_000, u64::MAX, 4_294_967_296 + 600, 4_294_967_296 + 1_209_600, 3 * 4_294_967_296 + 3600, 4_294_967_296 * 4_294_967 + 900, 1 << 40, u64::MAX - 100];

pub fn world_for(mode: Mode, rng: &mut Prng) -> (WorldCfg, AmtClass) {
    let amt = match mode {
        Mode::BulkOwner | Mode::AssetStack => AmtClass::Small,
        _ => match rng.below(10) {
            0..=3 => AmtClass::Small,
            4..=7 => AmtClass::Boundary,
            _ => AmtClass::Large,
        },
    };
    let mut natives: Vec<String> = vec!["ujunox".into(), "uusdcx".into(), "uatom".into()];
    if rng.chance(1, 2) {
        natives.push("uosmo".into());
    }
    if rng.chance(1, 4) {
        // a native denomination spelled exactly like the first token contract's address
        natives.push("contract0".into());
    }
    if rng.chance(1, 5) {
        // a denomination that differs from another one only in letter case (distinct for the bank)
        natives.push("UATOM".into());
    }
    let mut users = rng.range(3, 5) as usize;
    let mut n_cw20 = rng.range(1, 3) as usize;
    let mut nfts_per_user = rng.range(2, 3) as usize;
    let mut colls: Vec<CollCfg> = vec![];
    let n_colls = match mode {
        Mode::RoyaltyStack => rng.range(18, 26) as usize,
        Mode::AssetStack => 4,
        Mode::BulkOwner => 1,
        _ => rng.range(2, 4) as usize,
    };
    for k in 0..n_colls {
        let admin = match mode {
            Mode::RoyaltyStack => Some(ADMINS[0].to_string()),
            _ => match rng.below(8) {
                0 => None,
                1 => Some("user0".to_string()),
                _ => Some(ADMINS[k % ADMINS.len()].to_string()),
            },
        };
        colls.push(CollCfg { admin, sloppy: false });
    }
    match mode {
        Mode::RoyaltyStack => {
            users = 3;
            // sometimes many tokens per user, so that distinct NFTs with confusable identifiers exist
            // (e.g. contract1 #12 and contract11 #2)
            nfts_per_user = if rng.chance(1, 3) { 4 } else { rng.range(1, 2) as usize };
            n_cw20 = rng.range(1, 2) as usize;
        }
        Mode::AssetStack if rng.chance(1, 3) => {
            // many native denominations: records created with more than 25 coins in one message
            users = 3;
            nfts_per_user = 2;
            n_cw20 = 2;
            natives = vec!["ujunox".to_string(), "uusdcx".to_string()];
            for i in 0..rng.range(26, 30) {
                natives.push(format!("udenom{i:02}"));
            }
        }
        Mode::AssetStack => {
            users = 3;
            nfts_per_user = 5;
            n_cw20 = 3;
            natives = vec![
                "ujunox".into(),
                "uusdcx".into(),
                "uatom".into(),
                "uosmo".into(),
                "uakt".into(),
                "uscrt".into(),
                "ustars".into(),
                "uhuahua".into(),
            ];
        }
        Mode::BulkOwner => {
            users = 2;
            nfts_per_user = 1;
            n_cw20 = 1;
        }
        Mode::BadInput => {
            if rng.chance(1, 2) {
                colls.push(CollCfg { admin: Some(ADMINS[0].to_string()), sloppy: true });
            }
        }
        _ => {}
    }
    // total supply of every asset stays below 2^128 so that sums inside one record cannot overflow
    // legitimately: 3 users x 2^126 in the large class
    let (native_amt, cw20_amt) = match amt {
        AmtClass::Large => (1u128 << 126, 1u128 << 126),
        _ => (1_000_000_000, 1_000_000_000),
    };
    if matches!(amt, AmtClass::Large) {
        users = users.min(3);
    }
    let start_s = 1_600_000_000 + rng.below(400_000_000);
    let nanos = if rng.chance(1, 4) { 0 } else { rng.below(1_000_000_000) };
    let cfg = WorldCfg {
        users,
        natives,
        n_cw20,
        colls,
        native_amt,
        cw20_amt,
        nfts_per_user,
        sloppy20: matches!(mode, Mode::BadInput) && rng.chance(1, 2),
        contract_trader: matches!(mode, Mode::General | Mode::Flipper | Mode::CycleHeavy | Mode::Faulty) && rng.chance(1, 4),
        lenient_bank: matches!(mode, Mode::BadInput) || rng.chance(1, 6),
        start_ns: start_s * 1_000_000_000 + nanos,
        start_height: 1000 + rng.below(1_000_000),
    };
    (cfg, amt)
}

fn fund(d: &str, a: u128) -> Fund {
    Fund { denom: d.to_string(), amount: a }
}

impl Gen {
    pub fn new(mode: Mode, rng: Prng, amt: AmtClass) -> Gen {
        let faults = matches!(mode, Mode::Faulty) || (matches!(mode, Mode::Flipper | Mode::ExpiryRace) && false);
        let attach = matches!(mode, Mode::Faulty | Mode::BadInput);
        Gen {
            mode,
            rng,
            amt,
            faults,
            attach,
            swap_sender: true,
            recent: vec![],
            next_id_hint: 1,
            script: Default::default(),
            pending_ask: None,
            pending_goods_nft: None,
            seen_listing_ids: Default::default(),
            seen_bucket_ids: Default::default(),
            counters: Default::default(),
            sloppy_sent: vec![],
        }
    }

    fn count(&mut self, k: &'static str) {
        *self.counters.entry(k).or_insert(0) += 1;
    }

    pub fn script_empty(&self) -> bool {
        self.script.is_empty()
    }

    // ------------------------------------------------------------------ small helpers

    fn amount(&mut self) -> u128 {
        match self.amt {
            AmtClass::Small => self.rng.range(1, 300) as u128,
            AmtClass::Boundary => {
                let base: [u128; 22] = [
                    1, 2, 33, 34, 35, 50, 52, 53, 100, 199, 200, 201, 399, 400, 401, 1000, 9999, 10000, 10001, 20000,
                    33334, 1_000_000,
                ];
                match self.rng.below(4) {
                    0 => *self.rng.pick(&base),
                    1 => {
                        let k = self.rng.range(1, 5000) as u128;
                        (k * 200 + self.rng.below(3) as u128).saturating_sub(1).max(1)
                    }
                    2 => {
                        let bps = *self.rng.pick(&RATES) as u128;
                        let unit = (10000 + bps - 1) / bps;
                        let k = self.rng.range(1, 500) as u128;
                        (k * unit + self.rng.below(3) as u128).saturating_sub(1).max(1)
                    }
                    _ => self.rng.range(1, 100_000) as u128,
                }
            }
            AmtClass::Large => match self.rng.below(9) {
                6 => u128::MAX / 5 + self.rng.below(3) as u128,
                7 => (1u128 << 126) - self.rng.below(1000) as u128,
                8 => (1u128 << 125) + self.rng.below(1000) as u128,
                0 => (1u128 << 64) - 1 + self.rng.below(3) as u128,
                1 => 1u128 << 100,
                2 => (1u128 << 120) + self.rng.below(1000) as u128,
                3 => self.rng.range128(1, 1u128 << 123),
                4 => self.rng.range(1, 100_000) as u128,
                _ => 200 * self.rng.range128(1, 1u128 << 90),
            },
        }
    }

    fn user(&mut self, names: &Names) -> String {
        self.rng.pick(&names.users).clone()
    }

    fn other_user(&mut self, names: &Names, not: &str) -> String {
        let v: Vec<&String> = names.users.iter().filter(|u| *u != not).collect();
        if v.is_empty() {
            not.to_string()
        } else {
            (*self.rng.pick(&v)).clone()
        }
    }

    fn any_account(&mut self, names: &Names) -> String {
        match self.rng.below(10) {
            0 => DEPLOYER.to_string(),
            1 => self.rng.pick(&ADMINS).to_string(),
            2 => BYSTANDER.to_string(),
            _ => self.user(names),
        }
    }

    fn fresh_listing_id(&mut self, o: &Obs) -> u64 {
        let mut id = self.next_id_hint.max(1);
        while self.seen_listing_ids.contains(&id) || o.listing_by_id(id).is_some() {
            id += 1;
        }
        id
    }
    fn fresh_bucket_id(&mut self, o: &Obs) -> u64 {
        let mut id = self.next_id_hint.max(1);
        while self.seen_bucket_ids.contains(&id) || o.bucket_by_id(id).is_some() {
            id += 1;
        }
        id
    }

    /// ids are remembered by the generator itself (every id it ever put into a creation message), not read
    /// from the contract's tombstone maps: the check must not depend on how the contract remembers them
    fn some_id(&mut self, o: &Obs, listing: bool) -> u64 {
        let bad_rate = if matches!(self.mode, Mode::BadInput) { 4 } else { 25 };
        if self.rng.chance(1, bad_rate) {
            return *self.rng.pick(&BOUNDARY_IDS);
        }
        if self.rng.chance(1, 8) {
            // deliberately an id that was used before (live or dead)
            let used: Vec<u64> = if listing { self.seen_listing_ids.iter().cloned().collect() } else { self.seen_bucket_ids.iter().cloned().collect() };
            if let Some(x) = self.rng.pick_opt(&used) {
                return *x;
            }
        }
        let family_rate = if matches!(self.mode, Mode::BadInput) { 5 } else { 30 };
        if self.rng.chance(1, family_rate) {
            // ids that agree in their low 8 / 16 / 32 bits (a narrower or sharded id registry would confuse them)
            let r = self.rng.range(1, 3);
            let k = self.rng.range(0, 5);
            let shift = *self.rng.pick(&[8u32, 16, 32, 32, 32]);
            return r + (k << shift);
        }
        if self.rng.chance(1, 6) {
            // a small id that is not the next one: gaps that are filled later, descending runs
            let pool: Vec<u64> = (1..=14u64)
                .filter(|i| if listing { !self.seen_listing_ids.contains(i) } else { !self.seen_bucket_ids.contains(i) })
                .collect();
            if let Some(x) = self.rng.pick_opt(&pool) {
                return *x;
            }
        }
        if listing {
            self.fresh_listing_id(o)
        } else {
            self.fresh_bucket_id(o)
        }
    }

    /// NFTs currently owned by `who`
    fn nfts_of(&self, o: &Obs, who: &str) -> Vec<(String, String)> {
        o.nft_owner.iter().filter(|(_, ow)| ow.as_str() == who).map(|(n, _)| n.clone()).collect()
    }

    fn random_fung(&mut self, names: &Names) -> Fung {
        let n = names.natives.len() + names.cw20s.len();
        let i = self.rng.below_usize(n);
        if i < names.natives.len() {
            Fung::Native(names.natives[i].clone())
        } else {
            Fung::Cw20(names.cw20s[i - names.natives.len()].clone())
        }
    }

    /// an ask of 1..3 assets somebody other than `seller` could plausibly provide
    fn random_ask(&mut self, o: &Obs, names: &Names, seller: &str) -> AskSpec {
        let mut a = Assets::default();
        let n = self.rng.range(1, 3);
        for _ in 0..n {
            if self.rng.chance(1, 4) {
                // an NFT owned by another user — or, rarely, one the seller holds / has already escrowed
                // (an ask nobody can meet is odd but legal, and the listing must stay binding all the same)
                let odd = self.rng.chance(1, 10);
                let cands: Vec<(String, String)> = o
                    .nft_owner
                    .iter()
                    .filter(|(_, ow)| if odd { ow.as_str() == seller || **ow == names.market } else { ow.as_str() != seller && names.users.contains(ow) })
                    .map(|(n, _)| n.clone())
                    .collect();
                if let Some(x) = self.rng.pick_opt(&cands) {
                    a.nfts.insert(x.clone());
                    continue;
                }
            }
            let f = self.random_fung(names);
            let fee_denom_bias = self.rng.chance(1, 2);
            let f = if fee_denom_bias { Fung::Native(if self.rng.chance(1, 2) { "ujunox".into() } else { "uusdcx".into() }) } else { f };
            let amt = self.amount();
            a.fung.insert(f, amt);
        }
        let mut s = AskSpec::from_assets(&a);
        if self.rng.chance(1, 3) {
            self.permute_ask(&mut s);
        }
        s
    }

    fn permute_ask(&mut self, s: &mut AskSpec) {
        self.rng.shuffle(&mut s.native);
        self.rng.shuffle(&mut s.cw20);
        self.rng.shuffle(&mut s.nfts);
    }

    fn bad_ask(&mut self, o: &Obs, names: &Names, seller: &str) -> AskSpec {
        // start from a well-formed ask with a few entries of each kind, then break it in one place
        let mut s = self.random_ask(o, names, seller);
        let want_n = self.rng.range(1, 3) as usize;
        while s.native.len() < want_n {
            let d = self.rng.pick(&names.natives).clone();
            if !s.native.iter().any(|(x, _)| *x == d) {
                s.native.push((d, self.rng.range(1, 900) as u128));
            } else {
                break;
            }
        }
        let mut toks: Vec<String> = names.cw20s.clone();
        toks.push("tokenxx".into());
        toks.push("tokenyy".into());
        let want_c = self.rng.range(0, 3) as usize;
        while s.cw20.len() < want_c {
            let t = self.rng.pick(&toks).clone();
            if !s.cw20.iter().any(|(x, _)| *x == t) {
                s.cw20.push((t, self.rng.range(1, 900) as u128));
            } else {
                break;
            }
        }
        let want_f = self.rng.range(0, 4) as usize;
        let mut guard = 0;
        while s.nfts.len() < want_f && guard < 12 {
            guard += 1;
            let c = names.colls[self.rng.below_usize(names.colls.len().min(2))].clone();
            let t = format!("{}", self.rng.range(1, 9));
            if !s.nfts.contains(&(c.clone(), t.clone())) {
                s.nfts.push((c, t));
            }
        }
        self.permute_ask(&mut s);
        match self.rng.below(9) {
            0 => AskSpec::default(),
            1 => {
                // zero native amount at a random position
                let pos = self.rng.below_usize(s.native.len() + 1);
                s.native.insert(pos, ("uzero".into(), 0));
                s
            }
            2 => {
                // duplicate denom at ANY position (possibly with a different amount)
                if s.native.is_empty() {
                    s.native.push(("uatom".into(), 5));
                }
                let mut x = self.rng.pick(&s.native).clone();
                if self.rng.chance(1, 2) {
                    x.1 += 1;
                }
                let pos = self.rng.below_usize(s.native.len() + 1);
                s.native.insert(pos, x);
                s
            }
            3 => {
                if s.cw20.is_empty() {
                    s.cw20.push((names.cw20s[0].clone(), 5));
                }
                let mut x = self.rng.pick(&s.cw20).clone();
                if self.rng.chance(1, 2) {
                    x.1 += 1;
                }
                let pos = self.rng.below_usize(s.cw20.len() + 1);
                s.cw20.insert(pos, x);
                s
            }
            4 | 5 => {
                // the same NFT twice, anywhere in the list (adjacent or with other tokens in between)
                if s.nfts.is_empty() {
                    s.nfts.push((names.colls[0].clone(), "1".to_string()));
                }
                let x = self.rng.pick(&s.nfts).clone();
                let pos = self.rng.below_usize(s.nfts.len() + 1);
                s.nfts.insert(pos, x);
                s
            }
            6 => {
                // too many items: just above the cap, and around the places where a narrow counter would wrap
                s.native.clear();
                s.cw20.clear();
                s.nfts.clear();
                let n = *self.rng.pick(&[26usize, 26, 27, 40, 255, 256, 257, 281, 282, 300, 512, 65_536 + 3]);
                for i in 0..n {
                    s.native.push((format!("udenom{i}"), 1 + i as u128));
                }
                s
            }
            7 => {
                let pos = self.rng.below_usize(s.cw20.len() + 1);
                s.cw20.insert(pos, (names.cw20s[0].clone() + "z", 0));
                s
            }
            _ => {
                // too many items of mixed kinds
                let mut i = 0;
                let n = *self.rng.pick(&[26usize, 26, 30, 256, 260, 281]);
                while s.len() < n {
                    s.nfts.push((names.colls[0].clone(), format!("x{i}")));
                    i += 1;
                }
                s
            }
        }
    }

    /// a deposit `who` can make right now: returns the op that deposits `piece` with `inner`
    /// messages chosen by the closure for each path
    fn deposit_op(
        &mut self,
        names: &Names,
        who: &str,
        piece: &Piece,
        direct: Value,
        inner20: Value,
        inner721: Value,
    ) -> Op {
        match piece {
            Piece::Native(coins) => Op::tx(who, &names.market, direct, coins.clone()),
            Piece::Cw20(t, a) => Op::tx(who, t, msgs::cw20_send(&names.market, *a, &inner20), vec![]),
            Piece::Nft(c, t) => Op::tx(who, c, msgs::cw721_send(&names.market, t, &inner721), vec![]),
        }
    }

    /// something `who` holds, as a deposit piece
    fn random_piece(&mut self, o: &Obs, names: &Names, who: &str) -> Piece {
        match self.rng.below(10) {
            0..=4 => {
                let k = if self.rng.chance(1, 4) { 2 } else { 1 };
                let mut coins: Vec<Fund> = vec![];
                for _ in 0..k {
                    let d = if self.rng.chance(1, 2) {
                        if self.rng.chance(1, 2) { "ujunox".to_string() } else { "uusdcx".to_string() }
                    } else {
                        self.rng.pick(&names.natives).clone()
                    };
                    if coins.iter().any(|c| c.denom == d) {
                        continue;
                    }
                    let a = self.amount().min(o.bal(who, &Fung::Native(d.clone())).max(1));
                    coins.push(fund(&d, a));
                }
                Piece::Native(coins)
            }
            5..=6 => {
                let t = self.rng.pick(&names.cw20s).clone();
                let a = self.amount().min(o.bal(who, &Fung::Cw20(t.clone())).max(1));
                Piece::Cw20(t, a)
            }
            _ => {
                let mine = self.nfts_of(o, who);
                match self.rng.pick_opt(&mine) {
                    Some(n) => Piece::Nft(n.0.clone(), n.1.clone()),
                    None => {
                        let d = "ujunox".to_string();
                        let a = self.amount().min(o.bal(who, &Fung::Native(d.clone())).max(1));
                        Piece::Native(vec![fund(&d, a)])
                    }
                }
            }
        }
    }

    fn bad_native_piece(&mut self, names: &Names) -> Piece {
        let d = self.rng.pick(&names.natives).clone();
        match self.rng.below(4) {
            0 => Piece::Native(vec![]),
            1 => Piece::Native(vec![fund(&d, 0)]),
            2 => Piece::Native(vec![fund(&d, 5), fund(&d, 7)]),
            _ => Piece::Native(vec![fund("ujunox", 3), fund(&d, 0)]),
        }
    }

    // ------------------------------------------------------------------ moves

    fn mv_create_listing(&mut self, o: &Obs, names: &Names) -> Option<Op> {
        let who = self.user(names);
        let id = self.some_id(o, true);
        let bad = matches!(self.mode, Mode::BadInput) && self.rng.chance(1, 3);
        // flipper: ask for exactly what an existing bucket holds, so that its owner can buy at once
        let flip_rate = if matches!(self.mode, Mode::Flipper | Mode::CycleHeavy) { 2 } else { 5 };
        let ask = if bad {
            self.bad_ask(o, names, &who)
        } else if !o.buckets.is_empty() && self.rng.chance(1, flip_rate) {
            let prefer: Vec<&BRec> = o.buckets.iter().filter(|b| b.fee.is_some()).collect();
            let b = if !prefer.is_empty() && self.rng.chance(2, 3) { *self.rng.pick(&prefer) } else { self.rng.pick(&o.buckets) };
            let mut s = AskSpec::from_assets(&b.funds);
            if self.rng.chance(1, 2) {
                self.permute_ask(&mut s);
            }
            s
        } else {
            self.random_ask(o, names, &who)
        };
        let wl: Option<String> = match self.rng.below(12) {
            0 => Some(self.other_user(names, &who)),
            1 if matches!(self.mode, Mode::BadInput) => Some(who.clone()),
            2 if matches!(self.mode, Mode::BadInput) => Some("X".to_string()),
            _ => None,
        };
        let piece = if matches!(self.mode, Mode::BadInput) && self.rng.chance(1, 4) {
            self.bad_native_piece(names)
        } else {
            self.random_piece(o, names, &who)
        };
        let op = self.deposit_op(
            names,
            &who,
            &piece,
            msgs::create_listing(id, &ask, wl.as_deref()),
            msgs::inner_create_listing_cw20(id, &ask, wl.as_deref()),
            msgs::inner_create_listing_cw721(id, &ask, wl.as_deref()),
        );
        Some(op)
    }

    fn mv_add_to_listing(&mut self, o: &Obs, names: &Names) -> Option<Op> {
        let cands: Vec<&LRec> = o.listings.iter().filter(|l| l.status == St::Preparing).collect();
        let l = *self.rng.pick_opt(&cands)?;
        let who = l.key_owner.clone();
        let piece = if matches!(self.mode, Mode::BadInput) && self.rng.chance(1, 4) {
            self.bad_native_piece(names)
        } else if self.rng.chance(1, 3) && !l.goods.fung.is_empty() {
            // merge into an asset that is already there
            let ks: Vec<&Fung> = l.goods.fung.keys().collect();
            match (*self.rng.pick(&ks)).clone() {
                Fung::Native(d) => Piece::Native(vec![fund(&d, self.amount().min(o.bal(&who, &Fung::Native(d.clone())).max(1)))]),
                Fung::Cw20(t) => Piece::Cw20(t.clone(), self.amount().min(o.bal(&who, &Fung::Cw20(t)).max(1))),
            }
        } else if !l.goods.nfts.is_empty() && self.rng.chance(2, 5) {
            let mine = self.nfts_of(o, &who);
            match self.rng.pick_opt(&mine) {
                Some(n) => Piece::Nft(n.0.clone(), n.1.clone()),
                None => self.random_piece(o, names, &who),
            }
        } else {
            self.random_piece(o, names, &who)
        };
        Some(self.deposit_op(
            names,
            &who,
            &piece,
            msgs::add_to_listing(l.id),
            msgs::inner_add_to_listing_cw20(l.id),
            msgs::inner_add_to_listing_cw721(l.id),
        ))
    }

    fn mv_change_ask(&mut self, o: &Obs, names: &Names) -> Option<Op> {
        let cands: Vec<&LRec> = o.listings.iter().filter(|l| l.status == St::Preparing).collect();
        let l = *self.rng.pick_opt(&cands)?;
        let who = l.key_owner.clone();
        let ask = if matches!(self.mode, Mode::BadInput) && self.rng.chance(1, 3) {
            self.bad_ask(o, names, &who)
        } else {
            self.random_ask(o, names, &who)
        };
        Some(Op::tx(&who, &names.market, msgs::change_ask(l.id, &ask), vec![]))
    }

    fn mv_finalize(&mut self, o: &Obs, names: &Names) -> Option<Op> {
        let cands: Vec<&LRec> = o.listings.iter().filter(|l| l.status == St::Preparing).collect();
        let l = *self.rng.pick_opt(&cands)?;
        let secs = if self.rng.chance(1, 8) { *self.rng.pick(&BAD_LIFETIMES) } else { *self.rng.pick(&LIFETIMES) };
        Some(Op::tx(&l.key_owner, &names.market, msgs::finalize(l.id, secs), vec![]))
    }

    /// listings `who` could buy right now
    fn open_listings<'a>(&self, o: &'a Obs, who: &str) -> Vec<&'a LRec> {
        o.listings
            .iter()
            .filter(|l| l.status == St::Finalized && l.expiration.map_or(false, |e| o.time_ns <= e))
            .filter(|l| l.wl.as_deref().map_or(true, |w| w == who))
            .collect()
    }

    fn fits(b: &Assets, ask: &Assets) -> bool {
        b.fung.iter().all(|(k, v)| ask.get(k) >= *v) && b.nfts.iter().all(|n| ask.nfts.contains(n))
    }

    /// the next piece `who` would add to make `have` equal to `ask`
    fn missing_piece(&mut self, o: &Obs, who: &str, have: &Assets, ask: &Assets) -> Option<Piece> {
        let mut opts: Vec<Piece> = vec![];
        for (k, v) in &ask.fung {
            let h = have.get(k);
            if h < *v {
                let need = *v - h;
                if o.bal(who, k) >= need {
                    match k {
                        Fung::Native(d) => opts.push(Piece::Native(vec![fund(d, need)])),
                        Fung::Cw20(t) => opts.push(Piece::Cw20(t.clone(), need)),
                    }
                }
                // sloppy buyer: the asset of the OTHER kind that carries the same name (a native denomination
                // spelled like a token contract's address) — must not be taken for the asked one
                if self.rng.chance(1, 3) {
                    match k {
                        Fung::Native(d) if o.bal(who, &Fung::Cw20(d.clone())) >= need => opts.push(Piece::Cw20(d.clone(), need)),
                        Fung::Cw20(t) if o.bal(who, &Fung::Native(t.clone())) >= need => opts.push(Piece::Native(vec![fund(t, need)])),
                        _ => {}
                    }
                }
            }
        }
        for n in &ask.nfts {
            if !have.nfts.contains(n) && o.owner_of(n).map(|x| x.as_str()) == Some(who) {
                opts.push(Piece::Nft(n.0.clone(), n.1.clone()));
            } else if !have.nfts.contains(n) && self.rng.chance(1, 6) {
                // sloppy buyer: another token of the asked collection instead of the asked one
                if let Some((m, _)) = o.nft_owner.iter().find(|(m, ow)| m.0 == n.0 && m.1 != n.1 && ow.as_str() == who) {
                    opts.push(Piece::Nft(m.0.clone(), m.1.clone()));
                }
            }
        }
        if opts.is_empty() {
            return None;
        }
        let mut p = self.rng.pick(&opts).clone();
        // split a fungible piece in two sometimes (merged top-ups), or be sloppy by one unit
        match &mut p {
            Piece::Native(c) if c[0].amount > 1 && self.rng.chance(1, 5) => {
                c[0].amount = self.rng.range128(1, c[0].amount - 1);
            }
            Piece::Cw20(_, a) if *a > 1 && self.rng.chance(1, 5) => {
                *a = self.rng.range128(1, *a - 1);
            }
            _ => {}
        }
        if self.rng.chance(1, 25) {
            match &mut p {
                Piece::Native(c) => c[0].amount += 1,
                Piece::Cw20(_, a) => *a += 1,
                _ => {}
            }
        }
        Some(p)
    }

    fn mv_build_bucket(&mut self, o: &Obs, names: &Names) -> Option<Op> {
        let who = self.user(names);
        let open = self.open_listings(o, &who);
        // continue a bucket that fits some ask
        let mine: Vec<&BRec> = o.buckets.iter().filter(|b| b.key_owner == who).collect();
        let mut plans: Vec<(u64, Piece)> = vec![];
        for b in &mine {
            for l in &open {
                if b.funds != l.ask && Self::fits(&b.funds, &l.ask) {
                    if let Some(p) = self.missing_piece(o, &who, &b.funds, &l.ask) {
                        plans.push((b.key_id, p));
                    }
                }
            }
        }
        if !plans.is_empty() && self.rng.chance(4, 5) {
            let (bid, p) = self.rng.pick(&plans).clone();
            return Some(self.deposit_op(
                names,
                &who,
                &p,
                msgs::add_to_bucket(bid),
                msgs::inner_add_to_bucket_cw20(bid),
                msgs::inner_add_to_bucket_cw721(bid),
            ));
        }
        // start a new bucket towards an open listing (or at random)
        let id = self.some_id(o, false);
        let piece = if let Some(l) = self.rng.pick_opt(&open) {
            let ask = l.ask.clone();
            self.missing_piece(o, &who, &Assets::default(), &ask).unwrap_or_else(|| self.random_piece(o, names, &who))
        } else if matches!(self.mode, Mode::BadInput) && self.rng.chance(1, 3) {
            self.bad_native_piece(names)
        } else {
            self.random_piece(o, names, &who)
        };
        Some(self.deposit_op(
            names,
            &who,
            &piece,
            msgs::create_bucket(id),
            msgs::inner_create_bucket_cw20(id),
            msgs::inner_create_bucket_cw721(id),
        ))
    }

    fn mv_add_to_bucket_random(&mut self, o: &Obs, names: &Names) -> Option<Op> {
        let b = self.rng.pick_opt(&o.buckets)?.clone();
        let who = b.key_owner.clone();
        let piece = if matches!(self.mode, Mode::BadInput) && self.rng.chance(1, 3) {
            self.bad_native_piece(names)
        } else {
            self.random_piece(o, names, &who)
        };
        Some(self.deposit_op(
            names,
            &who,
            &piece,
            msgs::add_to_bucket(b.key_id),
            msgs::inner_add_to_bucket_cw20(b.key_id),
            msgs::inner_add_to_bucket_cw721(b.key_id),
        ))
    }

    fn mv_buy(&mut self, o: &Obs, names: &Names) -> Option<Op> {
        // matching pairs first
        let mut pairs: Vec<(String, u64, u64)> = vec![];
        for b in &o.buckets {
            for l in &o.listings {
                if l.status == St::Finalized && b.funds == l.ask {
                    pairs.push((b.key_owner.clone(), l.id, b.key_id));
                }
            }
        }
        if !pairs.is_empty() && self.rng.chance(9, 10) {
            // prefer re-used proceeds buckets in flipper mode
            let (who, lid, bid) = self.rng.pick(&pairs).clone();
            return Some(Op::tx(&who, &names.market, msgs::buy(lid, bid), vec![]));
        }
        // near misses: a bucket that has the ask's assets but not its amounts, lacks one asset, or has one
        // too many (over- / under-payment by a unit, wrong token id, partial build) — must be refused
        let mut near: Vec<(String, u64, u64)> = vec![];
        for b in &o.buckets {
            for l in &o.listings {
                if l.status != St::Finalized || b.funds == l.ask {
                    continue;
                }
                let same_keys = b.funds.fung.keys().eq(l.ask.fung.keys()) && b.funds.nfts.len() == l.ask.nfts.len();
                let sub = Self::fits(&b.funds, &l.ask) && b.funds.count() + 1 >= l.ask.count();
                let sup = Self::fits(&l.ask, &b.funds) && l.ask.count() + 1 >= b.funds.count();
                let same_colls = b.funds.fung == l.ask.fung && b.funds.collections() == l.ask.collections() && !b.funds.nfts.is_empty();
                // same names and amounts when the kind of asset (native / CW20) is ignored
                let labels = |a: &Assets| -> Vec<(String, u128)> {
                    let mut v: Vec<(String, u128)> = a.fung.iter().map(|(k, x)| (match k { Fung::Native(d) => d.clone(), Fung::Cw20(t) => t.clone() }, *x)).collect();
                    v.sort();
                    v
                };
                let same_names = labels(&b.funds) == labels(&l.ask) && b.funds.nfts == l.ask.nfts;
                if same_keys || sub || sup || same_colls || same_names {
                    near.push((b.key_owner.clone(), l.id, b.key_id));
                }
            }
        }
        if !near.is_empty() && self.rng.chance(3, 4) {
            self.count("near_miss_purchase_attempt");
            let (who, lid, bid) = self.rng.pick(&near).clone();
            return Some(Op::tx(&who, &names.market, msgs::buy(lid, bid), vec![]));
        }
        // an arbitrary (probably refused) attempt
        let b = self.rng.pick_opt(&o.buckets)?;
        let l = self.rng.pick_opt(&o.listings)?;
        let who = if self.rng.chance(3, 4) { b.key_owner.clone() } else { self.user(names) };
        Some(Op::tx(&who, &names.market, msgs::buy(l.id, b.key_id), vec![]))
    }

    fn mv_withdraw(&mut self, o: &Obs, names: &Names) -> Option<Op> {
        let cands: Vec<&LRec> = o.listings.iter().filter(|l| l.status == St::Sold).collect();
        let l = *self.rng.pick_opt(&cands)?;
        Some(Op::tx(&l.key_owner, &names.market, msgs::withdraw_purchased(l.id), vec![]))
    }

    fn mv_remove_bucket(&mut self, o: &Obs, names: &Names) -> Option<Op> {
        let prefer: Vec<&BRec> = o.buckets.iter().filter(|b| b.fee.is_some()).collect();
        let b = if !prefer.is_empty() && self.rng.chance(1, 2) { *self.rng.pick(&prefer) } else { self.rng.pick_opt(&o.buckets)? };
        Some(Op::tx(&b.key_owner, &names.market, msgs::remove_bucket(b.key_id), vec![]))
    }

    fn mv_delete(&mut self, o: &Obs, names: &Names) -> Option<Op> {
        let deletable: Vec<&LRec> = o
            .listings
            .iter()
            .filter(|l| l.status == St::Preparing || (l.status == St::Finalized && l.expiration.map_or(false, |e| o.time_ns >= e)))
            .collect();
        let l = if !deletable.is_empty() && self.rng.chance(3, 4) { *self.rng.pick(&deletable) } else { self.rng.pick_opt(&o.listings)? };
        Some(Op::tx(&l.key_owner, &names.market, msgs::delete_listing(l.id), vec![]))
    }

    fn mv_cycle(&mut self, _o: &Obs, names: &Names) -> Option<Op> {
        let who = self.any_account(names);
        Some(Op::tx(&who, &names.market, msgs::fee_cycle(), vec![]))
    }

    fn mv_registry(&mut self, o: &Obs, names: &Names) -> Option<Op> {
        let coll = self.rng.pick(&names.colls).clone();
        let admin = o.admins.get(&coll).cloned().flatten();
        let sender = if self.rng.chance(5, 6) {
            admin.clone().unwrap_or_else(|| self.rng.pick(&ADMINS).to_string())
        } else if self.rng.chance(1, 4) {
            // a different account whose name differs from the admin's only in letter case
            admin.clone().map(|a| a.to_uppercase()).unwrap_or_else(|| self.any_account(names))
        } else {
            self.any_account(names)
        };
        let bps = if self.rng.chance(1, 8) { *self.rng.pick(&BAD_RATES) } else { *self.rng.pick(&RATES) };
        let payout = match self.rng.below(12) {
            0 => self.user(names),
            1 => "P".to_string(),
            // a payout address that is itself a contract
            2 => names.hostile.clone(),
            3 => names.cw20s[0].clone(),
            _ => self.rng.pick(&PAYOUTS).to_string(),
        };
        let target = match self.rng.below(14) {
            0 => self.user(names),               // not a contract
            1 => names.cw20s[0].clone(),         // a contract without admin that is no collection
            2 => "NOPE".to_string(),             // not an address
            _ => coll.clone(),
        };
        // a contract account naming itself as the collection (it is not its own admin)
        let (sender, target) = if names.users.contains(&names.hostile) && self.rng.chance(1, 12) {
            (names.hostile.clone(), names.hostile.clone())
        } else {
            (sender, target)
        };
        let registered = o.registry.contains_key(&target);
        // a Register that repeats exactly what is stored (a "harmless retry"), by whoever
        if registered && self.rng.chance(1, 6) {
            let e = o.registry.get(&target).unwrap();
            return Some(Op::tx(&sender, &names.registry, msgs::reg_register(&target, &e.payout, e.bps), vec![]));
        }
        let msg = if !registered || self.rng.chance(1, 8) {
            if self.rng.chance(1, 6) && registered {
                msgs::reg_remove(&target)
            } else {
                msgs::reg_register(&target, &payout, bps)
            }
        } else {
            match self.rng.below(5) {
                0 => msgs::reg_remove(&target),
                1 => msgs::reg_update(&target, Some(&payout), None),
                2 => msgs::reg_update(&target, None, Some(bps)),
                3 => msgs::reg_update(&target, None, None),
                _ => msgs::reg_update(&target, Some(&payout), Some(bps)),
            }
        };
        Some(Op::tx(&sender, &names.registry, msg, vec![]))
    }

    fn mv_admin_change(&mut self, o: &Obs, names: &Names) -> Option<Op> {
        let coll = self.rng.pick(&names.colls).clone();
        let cur = o.admins.get(&coll).cloned().flatten()?;
        let from = if self.rng.chance(5, 6) { cur } else { self.any_account(names) };
        let admin = match self.rng.below(4) {
            0 => None,
            1 => Some(self.user(names)),
            _ => Some(self.rng.pick(&ADMINS).to_string()),
        };
        Some(Op::SetAdmin { from, contract: coll, admin })
    }

    fn mv_bystander(&mut self, o: &Obs, names: &Names) -> Option<Op> {
        let who = self.user(names);
        let to = if self.rng.chance(1, 3) { BYSTANDER.to_string() } else { self.other_user(names, &who) };
        if self.rng.chance(1, 2) {
            let t = self.rng.pick(&names.cw20s).clone();
            let a = self.amount().min(o.bal(&who, &Fung::Cw20(t.clone())) / 4).max(1);
            Some(Op::tx(&who, &t, msgs::cw20_transfer(&to, a), vec![]))
        } else {
            let mine = self.nfts_of(o, &who);
            let n = self.rng.pick_opt(&mine)?;
            if !names.users.contains(&to) {
                return None;
            }
            Some(Op::tx(&who, &n.0, msgs::cw721_transfer(&to, &n.1), vec![]))
        }
    }

    /// the careless collection lets its owner send one token id twice: into a fresh record, then
    /// again into the same record (must be refused) or into another one
    /// the careless token: deposits of zero (must be refused by the market itself) and of positive amounts
    fn mv_sloppy20(&mut self, o: &Obs, names: &Names) -> Option<Op> {
        let ti = names.sloppy20.iter().position(|s| *s)?;
        let tok = names.cw20s[ti].clone();
        let m = &names.market;
        let who = self.user(names);
        let amount: u128 = if self.rng.chance(1, 2) { 0 } else { self.rng.range(1, 500) as u128 };
        self.count("sloppy20_send");
        let inner = match self.rng.below(4) {
            0 => msgs::inner_create_bucket_cw20(self.fresh_bucket_id(o)),
            1 => {
                let ask = self.random_ask(o, names, &who);
                msgs::inner_create_listing_cw20(self.fresh_listing_id(o), &ask, None)
            }
            2 => {
                let mine: Vec<&LRec> = o.listings.iter().filter(|l| l.status == St::Preparing).collect();
                let l = *self.rng.pick_opt(&mine)?;
                return Some(Op::tx(&l.key_owner, &tok, msgs::cw20_send(m, amount, &msgs::inner_add_to_listing_cw20(l.id)), vec![]));
            }
            _ => {
                let b = self.rng.pick_opt(&o.buckets)?;
                return Some(Op::tx(&b.key_owner, &tok, msgs::cw20_send(m, amount, &msgs::inner_add_to_bucket_cw20(b.key_id)), vec![]));
            }
        };
        Some(Op::tx(&who, &tok, msgs::cw20_send(m, amount, &inner), vec![]))
    }

    fn mv_sloppy(&mut self, o: &Obs, names: &Names) -> Option<Op> {
        if names.sloppy20.iter().any(|s| *s) && (self.rng.chance(1, 2) || !names.sloppy.iter().any(|s| *s)) {
            return self.mv_sloppy20(o, names);
        }
        let ci = names.sloppy.iter().position(|s| *s)?;
        let coll = names.colls[ci].clone();
        let m = &names.market;
        if let Some((who, tid, is_listing, id)) = self.rng.pick_opt(&self.sloppy_sent.clone()).cloned() {
            if self.rng.chance(2, 3) {
                self.count("sloppy_double_send");
                let inner = if is_listing { msgs::inner_add_to_listing_cw721(id) } else { msgs::inner_add_to_bucket_cw721(id) };
                return Some(Op::tx(&who, &coll, msgs::cw721_send(m, &tid, &inner), vec![]));
            }
        }
        let who = self.user(names);
        let tid = format!("s{}", self.rng.range(1, 4));
        let is_listing = self.rng.chance(1, 2);
        let inner;
        let id;
        if is_listing {
            id = self.fresh_listing_id(o);
            let ask = self.random_ask(o, names, &who);
            inner = msgs::inner_create_listing_cw721(id, &ask, None);
        } else {
            id = self.fresh_bucket_id(o);
            inner = msgs::inner_create_bucket_cw721(id);
        }
        self.sloppy_sent.push((who.clone(), tid.clone(), is_listing, id));
        Some(Op::tx(&who, &coll, msgs::cw721_send(m, &tid, &inner), vec![]))
    }

    fn mv_clock(&mut self, o: &Obs, _names: &Names) -> Option<Op> {
        let now = o.time_ns;
        let kind = match self.mode {
            Mode::ExpiryRace | Mode::CycleHeavy | Mode::RegistryHeavy => self.rng.weighted(&[2, 2, 6]),
            _ => self.rng.weighted(&[5, 3, 3]),
        };
        match kind {
            0 => {
                let dt = match self.rng.below(4) {
                    0 => 1,
                    1 => self.rng.range(1, 1_000_000_000),
                    2 => 1_000_000_000,
                    _ => self.rng.range(1_000_000_000, 5_000_000_000),
                };
                Some(Op::Advance { dt_ns: dt, dblocks: self.rng.below(2) })
            }
            1 if self.rng.chance(1, 8) => {
                // time and height are independent seams: many blocks in little time (a chain with fast blocks),
                // around the block count a "week in blocks" would be
                self.count("height_races_ahead_of_time");
                let blocks = *self.rng.pick(&[100_799u64, 100_800, 100_801, 150_000, 250_000]);
                Some(Op::Advance { dt_ns: self.rng.range(1, 3 * 86400) * 1_000_000_000 + self.rng.below(1_000_000_000), dblocks: blocks })
            }
            1 if self.rng.chance(1, 8) => {
                // a long quiet period: more than one, more than two weeks without anybody cycling
                self.count("long_quiet_period");
                let days = self.rng.range(8, 40);
                Some(Op::Advance { dt_ns: days * 86400 * 1_000_000_000 + self.rng.below(1_000_000_000), dblocks: days * 14_400 })
            }
            1 => {
                let secs = self.rng.range(60, 6 * 3600);
                let blocks = match self.rng.below(3) {
                    0 => secs / 6,
                    1 => 0,
                    _ => self.rng.range(1, 300),
                };
                Some(Op::Advance { dt_ns: secs * 1_000_000_000 + self.rng.below(1_000_000_000), dblocks: blocks })
            }
            _ => {
                // boundary seeking
                self.count("boundary_clock");
                let mut targets: Vec<(u64, u64)> = vec![]; // (target ns, blocks)
                let deltas: [i64; 6] = [-1_000_000_000, -1, 0, 1, 100_000_000, 1_000_000_000];
                for l in &o.listings {
                    if let Some(e) = l.expiration {
                        if l.status == St::Finalized {
                            let d = *self.rng.pick(&deltas);
                            let t = (e as i128 + d as i128).max(0) as u64;
                            targets.push((t, 0));
                        }
                    }
                }
                // the week mark of the fee cycle (whole seconds matter, nanos are random)
                {
                    let ds: [i64; 3] = [-1, 0, 1];
                    let d = *self.rng.pick(&ds);
                    let s = (o.fee_last as i64 + 604800 + d).max(0) as u64;
                    let t = s * 1_000_000_000 + self.rng.below(1_000_000_000);
                    if matches!(self.mode, Mode::CycleHeavy) || self.rng.chance(1, 3) {
                        targets.push((t, 0));
                    }
                }
                // registry cool-down (height seam, time unrelated)
                for (_, e) in &o.registry {
                    let d = self.rng.below(3) as i64 - 1;
                    let h = (e.last_updated as i64 + 100 + d).max(0) as u64;
                    if h > o.height {
                        targets.push((now + self.rng.range(0, 5_000_000_000), h - o.height));
                    }
                }
                let fwd: Vec<(u64, u64)> = targets.into_iter().filter(|(t, b)| *t > now || *b > 0).collect();
                let (t, b) = *self.rng.pick_opt(&fwd)?;
                let dt = t.saturating_sub(now);
                let blocks = if b > 0 { b } else if self.rng.chance(1, 2) { dt / 6_000_000_000 } else { self.rng.below(3) };
                Some(Op::Advance { dt_ns: dt, dblocks: blocks })
            }
        }
    }

    /// any message kind with loosely chosen arguments by any account (mostly refused)
    /// the OWNER of a random listing sends a random listing message whatever the lifecycle state:
    /// top-ups, re-pricing, re-finalizing, deleting, withdrawing aimed at finalized / sold / expired listings
    fn mv_owner_misuse(&mut self, o: &Obs, names: &Names) -> Option<Op> {
        let l = self.rng.pick_opt(&o.listings)?.clone();
        let who = l.key_owner.clone();
        let m = &names.market;
        self.count("owner_acts_in_any_state");
        let op = match self.rng.below(8) {
            0 => {
                let d = self.rng.pick(&names.natives).clone();
                Op::tx(&who, m, msgs::add_to_listing(l.id), vec![fund(&d, self.amount().min(o.bal(&who, &Fung::Native(d.clone())).max(1)))])
            }
            1 => {
                let t = self.rng.pick(&names.cw20s).clone();
                Op::tx(&who, &t, msgs::cw20_send(m, self.amount().min(o.bal(&who, &Fung::Cw20(t.clone())).max(1)), &msgs::inner_add_to_listing_cw20(l.id)), vec![])
            }
            2 => {
                let mine = self.nfts_of(o, &who);
                let n = self.rng.pick_opt(&mine)?.clone();
                Op::tx(&who, &n.0, msgs::cw721_send(m, &n.1, &msgs::inner_add_to_listing_cw721(l.id)), vec![])
            }
            3 => {
                let ask = self.random_ask(o, names, &who);
                Op::tx(&who, m, msgs::change_ask(l.id, &ask), vec![])
            }
            4 => Op::tx(&who, m, msgs::finalize(l.id, *self.rng.pick(&LIFETIMES)), vec![]),
            5 => Op::tx(&who, m, msgs::delete_listing(l.id), vec![]),
            6 => Op::tx(&who, m, msgs::withdraw_purchased(l.id), vec![]),
            _ => {
                // the original seller of a sold listing tries again
                let seller = o.buckets.iter().find(|b| b.fee.is_some()).map(|b| b.key_owner.clone()).unwrap_or(who.clone());
                Op::tx(&seller, m, msgs::delete_listing(l.id), vec![])
            }
        };
        Some(op)
    }

    fn mv_freeform(&mut self, o: &Obs, names: &Names) -> Option<Op> {
        if self.rng.chance(1, 3) {
            if let Some(op) = self.mv_owner_misuse(o, names) {
                return Some(op);
            }
        }
        let who = self.any_account(names);
        let lid = match self.rng.pick_opt(&o.listings) {
            Some(l) if self.rng.chance(4, 5) => l.id,
            _ => self.some_id(o, true),
        };
        let bid = match self.rng.pick_opt(&o.buckets) {
            Some(b) if self.rng.chance(4, 5) => b.key_id,
            _ => self.some_id(o, false),
        };
        let m = &names.market;
        let op = match self.rng.below(13) {
            0 => Op::tx(&who, m, msgs::add_to_listing(lid), vec![fund("ujunox", self.amount().min(1000))]),
            1 => {
                let ask = self.random_ask(o, names, &who);
                Op::tx(&who, m, msgs::change_ask(lid, &ask), vec![])
            }
            2 => Op::tx(&who, m, msgs::finalize(lid, *self.rng.pick(&LIFETIMES)), vec![]),
            3 => Op::tx(&who, m, msgs::delete_listing(lid), vec![]),
            4 => Op::tx(&who, m, msgs::add_to_bucket(bid), vec![fund("ujunox", self.amount().min(1000))]),
            5 => Op::tx(&who, m, msgs::remove_bucket(bid), vec![]),
            6 => Op::tx(&who, m, msgs::buy(lid, bid), vec![]),
            7 => Op::tx(&who, m, msgs::withdraw_purchased(lid), vec![]),
            8 => Op::tx(&who, m, msgs::fee_cycle(), vec![]),
            9 => {
                let t = self.rng.pick(&names.cw20s).clone();
                let inner = if self.rng.chance(1, 2) { msgs::inner_add_to_bucket_cw20(bid) } else { msgs::inner_add_to_listing_cw20(lid) };
                Op::tx(&who, &t, msgs::cw20_send(m, self.amount().min(1000), &inner), vec![])
            }
            10 => {
                let mine = self.nfts_of(o, &who);
                let n = self.rng.pick_opt(&mine)?.clone();
                let inner = if self.rng.chance(1, 2) { msgs::inner_add_to_bucket_cw721(bid) } else { msgs::inner_add_to_listing_cw721(lid) };
                Op::tx(&who, &n.0, msgs::cw721_send(m, &n.1, &inner), vec![])
            }
            11 | 12 if who == names.hostile => return None, // a contract calling the hooks with a forged sender is C18's probe, not ordinary traffic
            11 => {
                // an externally owned account poking a receive entry point directly
                let victim = self.user(names);
                let inner = msgs::inner_add_to_bucket_cw20(bid);
                Op::tx(&who, m, msgs::market_receive(&victim, 5, &inner), vec![])
            }
            _ => {
                let victim = self.user(names);
                let inner = msgs::inner_add_to_bucket_cw721(bid);
                Op::tx(&who, m, msgs::market_receive_nft(&victim, "1", &inner), vec![])
            }
        };
        Some(op)
    }

    // ------------------------------------------------------------------ directed preludes

    pub fn prepare_script(&mut self, o: &Obs, names: &Names) {
        match self.mode {
            Mode::RoyaltyStack => self.script_royalty_stack(o, names),
            Mode::BulkOwner => self.script_bulk_owner(o, names),
            Mode::AssetStack => self.script_asset_stack(o, names),
            Mode::RegistryHeavy | Mode::General | Mode::Faulty | Mode::Flipper | Mode::ExpiryRace | Mode::CycleHeavy => {
                // most runs start with a few collections registered so that royalties matter early
                let n = self.rng.below(names.colls.len() as u64 + 1) as usize;
                for c in names.colls.iter().take(n) {
                    if let Some(Some(adm)) = o.admins.get(c) {
                        let payout = match self.rng.below(6) {
                            0 => self.user(names),
                            _ => self.rng.pick(&PAYOUTS).to_string(),
                        };
                        let bps = *self.rng.pick(&RATES);
                        self.script.push_back(Op::tx(adm, &names.registry, msgs::reg_register(c, &payout, bps), vec![]));
                    }
                }
                if matches!(self.mode, Mode::CycleHeavy) && self.rng.chance(1, 2) {
                    // start near the week mark
                    let nanos = self.rng.below(1_000_000_000);
                    self.script.push_back(Op::Advance { dt_ns: 604_795 * 1_000_000_000 + nanos, dblocks: 100_000 });
                } else if matches!(self.mode, Mode::CycleHeavy) && self.rng.chance(1, 2) {
                    // a fee is recorded, the denomination switches, then the proceeds bucket buys again
                    let m = &names.market;
                    let a = self.amount().max(200);
                    let b = self.amount().max(200);
                    let ask = AskSpec { native: vec![("ujunox".into(), a), ("uusdcx".into(), b)], ..Default::default() };
                    self.script.push_back(Op::tx("user0", m, msgs::create_listing(1, &ask, None), vec![fund("uatom", 77)]));
                    self.script.push_back(Op::tx("user0", m, msgs::finalize(1, 3600), vec![]));
                    self.script.push_back(Op::tx("user1", m, msgs::create_bucket(1), vec![fund("ujunox", a), fund("uusdcx", b)]));
                    self.script.push_back(Op::tx("user1", m, msgs::buy(1, 1), vec![]));
                    self.script.push_back(Op::Advance { dt_ns: 8 * 86400 * 1_000_000_000 + self.rng.below(1_000_000_000), dblocks: 100_000 });
                    self.script.push_back(Op::tx("user2", m, msgs::fee_cycle(), vec![]));
                    // JUNO is in force at instantiation: the first sale took 0.5 % of the ujunox
                    let a2 = a - (a / 1000 * 5 + (a % 1000) * 5 / 1000);
                    let ask2 = AskSpec { native: vec![("uusdcx".into(), b), ("ujunox".into(), a2)], ..Default::default() };
                    self.script.push_back(Op::tx("user2", m, msgs::create_listing(2, &ask2, None), vec![fund("uatom", 33)]));
                    self.script.push_back(Op::tx("user2", m, msgs::finalize(2, 3600), vec![]));
                    self.script.push_back(Op::tx("user0", m, msgs::buy(2, 1), vec![]));
                    self.next_id_hint = 3;
                }
            }
            Mode::BadInput => {
                // (script_overflowing_topup is not scheduled: the second deposit would lift the MARKET's own bank
                // balance above 2^128, which the bank stub — like cosmwasm's Coin — cannot represent, so the
                // message is refused by the chain before the contract sees it; see DESIGN.md §10.7, C12-B3)
            }
        }
    }

    /// a record already holds more than half of what 128 bits can express of one denomination; the
    /// owner's wallet is refilled from outside and the same amount is sent again: the sum cannot be
    /// recorded, so the top-up must be refused (and must not be stored as a second entry)
    #[allow(dead_code)]
    fn script_overflowing_topup(&mut self, names: &Names) {
        let m = &names.market;
        let who = "user0";
        let a: u128 = (1u128 << 127) + self.rng.below(1000) as u128;
        let ask = AskSpec { native: vec![("uatom".into(), 5)], ..Default::default() };
        self.count("topup_beyond_128_bits");
        let as_listing = self.rng.chance(2, 3);
        self.script.push_back(Op::Mint { to: who.into(), denom: "ubig".into(), amount: a });
        if as_listing {
            self.script.push_back(Op::tx(who, m, msgs::create_listing(700, &ask, None), vec![fund("ubig", a), fund("uatom", 9)]));
        } else {
            self.script.push_back(Op::tx(who, m, msgs::create_bucket(700), vec![fund("ubig", a), fund("uatom", 9)]));
        }
        self.script.push_back(Op::Mint { to: who.into(), denom: "ubig".into(), amount: a });
        let again = vec![fund("uatom", 1), fund("ubig", a)];
        if as_listing {
            self.script.push_back(Op::tx(who, m, msgs::add_to_listing(700), again));
        } else {
            self.script.push_back(Op::tx(who, m, msgs::add_to_bucket(700), again));
        }
    }

    /// one trade with registered collections on BOTH sides, the two sets overlapping only partly, and
    /// fungibles on both sides to pay the royalties from
    fn script_royalty_overlap(&mut self, o: &Obs, names: &Names) {
        let m = &names.market;
        // small sets mostly; sometimes large ones, so that each side stays at or below 50 % while the two
        // sides together exceed it (the cap is per side)
        let big = names.colls.len() >= 20 && self.rng.chance(1, 3);
        let k = if big { names.colls.len().min(24) } else { names.colls.len().min(9) };
        if k < 4 {
            return;
        }
        let adm = ADMINS[0];
        for i in 0..k {
            if self.rng.chance(4, 5) {
                let payout = self.rng.pick(&PAYOUTS).to_string();
                let r = if big { 300 } else { *self.rng.pick(&RATES) };
                self.script.push_back(Op::tx(adm, &names.registry, msgs::reg_register(&names.colls[i], &payout, r), vec![]));
            }
        }
        let mut idx: Vec<usize> = (0..k).collect();
        self.rng.shuffle(&mut idx);
        let (ns, nb) = if big {
            (self.rng.range(8, 12) as usize, self.rng.range(8, 12) as usize)
        } else {
            (self.rng.range(1, 3) as usize, self.rng.range(2, 4) as usize)
        };
        let shared = self.rng.range(1, ns.min(nb) as u64) as usize;
        let s_set: Vec<usize> = idx[..ns].to_vec();
        let mut b_set: Vec<usize> = idx[..shared].to_vec();
        b_set.extend(idx[ns..(ns + nb - shared).min(k)].iter().cloned());
        let tok = |who: &str, c: &str| o.nft_owner.iter().find(|(x, ow)| x.0 == c && ow.as_str() == who).map(|(x, _)| x.clone());
        let a1 = self.amount().max(10_000);
        let a2 = self.amount().max(10_000);
        // sometimes only one side carries fungibles (the other side's royalties then have nothing to be paid from)
        let ask_has_coins = !self.rng.chance(1, 3);
        let mut ask = if ask_has_coins { AskSpec { native: vec![("uatom".into(), a2)], ..Default::default() } } else { AskSpec::default() };
        for c in &b_set {
            if let Some(x) = tok("user2", &names.colls[*c]) {
                ask.nfts.push(x);
            }
        }
        self.rng.shuffle(&mut ask.nfts);
        self.count("royalty_sets_overlap_partly");
        let lid = 800;
        let bid = 800;
        self.script.push_back(Op::tx("user0", m, msgs::create_listing(lid, &ask, None), vec![fund("ujunox", a1)]));
        let t = names.cw20s[0].clone();
        let a3 = self.amount().max(5000).min(o.bal("user0", &Fung::Cw20(t.clone())));
        self.script.push_back(Op::tx("user0", &t, msgs::cw20_send(m, a3, &msgs::inner_add_to_listing_cw20(lid)), vec![]));
        for c in &s_set {
            if let Some(x) = tok("user0", &names.colls[*c]) {
                self.script.push_back(Op::tx("user0", &x.0, msgs::cw721_send(m, &x.1, &msgs::inner_add_to_listing_cw721(lid)), vec![]));
            }
        }
        self.script.push_back(Op::tx("user0", m, msgs::finalize(lid, 7200), vec![]));
        let mut order = ask.nfts.clone();
        self.rng.shuffle(&mut order);
        if ask_has_coins {
            self.script.push_back(Op::tx("user2", m, msgs::create_bucket(bid), vec![fund("uatom", a2)]));
        }
        for (i, x) in order.iter().enumerate() {
            let inner = if i == 0 && !ask_has_coins { msgs::inner_create_bucket_cw721(bid) } else { msgs::inner_add_to_bucket_cw721(bid) };
            self.script.push_back(Op::tx("user2", &x.0, msgs::cw721_send(m, &x.1, &inner), vec![]));
        }
        self.script.push_back(Op::tx("user2", m, msgs::buy(lid, bid), vec![]));
    }

    fn script_royalty_stack(&mut self, _o: &Obs, names: &Names) {
        if self.rng.chance(1, 4) {
            self.script_royalty_overlap(_o, names);
            return;
        }
        self.script_confusable(_o, names);
        let targets: [u64; 8] = [4990, 5000, 5010, 7500, 3000, 4999, 5001, 5000];
        let mut s = *self.rng.pick(&targets);
        let max_n = names.colls.len();
        let mut rates: Vec<u64> = vec![];
        if max_n >= 21 && self.rng.chance(1, 3) {
            // many collections at a moderate rate: over the cap in total, although any 20 of them are not
            let n = self.rng.range(21, max_n.min(25) as u64) as usize;
            let r = *self.rng.pick(&[240u64, 250, 245, 200, 239]);
            rates = vec![r; n];
            s = 0;
        }
        while s > 0 && rates.len() < max_n {
            if s >= 310 {
                rates.push(300);
                s -= 300;
            } else if s > 300 {
                rates.push(s - 10);
                s = 10;
            } else {
                rates.push(s.max(10));
                s = 0;
            }
        }
        let n = rates.len();
        self.rng.shuffle(&mut rates);
        let adm = ADMINS[0];
        for (i, r) in rates.iter().enumerate() {
            let payout = match self.rng.below(10) {
                0 | 1 => PAYOUTS[0].to_string(),
                // royalties flowing back to one of the trading parties
                2 => "user0".to_string(),
                3 => "user1".to_string(),
                4 if self.rng.chance(1, 2) => "user2".to_string(),
                _ => self.rng.pick(&PAYOUTS).to_string(),
            };
            self.script.push_back(Op::tx(adm, &names.registry, msgs::reg_register(&names.colls[i], &payout, *r), vec![]));
        }
        let m = &names.market;
        let seller = "user0";
        let buyer = "user1";
        let seller_side = self.rng.chance(1, 2);
        let both = self.rng.chance(1, 5);
        let extra_unreg = n < max_n && self.rng.chance(1, 2);
        let dup_coll = self.rng.chance(1, 3);
        let price = self.amount().max(20_000);
        let denom = if self.rng.chance(1, 2) { "ujunox" } else { "uatom" };
        // sometimes the other side of the trade holds NFTs only (no fungible to pay royalties from)
        let nft_only = self.rng.chance(1, 4);
        let last = names.colls[max_n - 1].clone();
        let buyer_nft = _o.nft_owner.iter().find(|(x, ow)| x.0 == last && ow.as_str() == buyer).map(|(x, _)| x.clone());
        if seller_side || both {
            // seller sells one NFT of each registered collection, asks for coins (or for one NFT)
            let ask = match (&buyer_nft, nft_only) {
                (Some(x), true) => AskSpec { nfts: vec![x.clone()], ..Default::default() },
                _ => AskSpec { native: vec![(denom.into(), price)], ..Default::default() },
            };
            let mut colls: Vec<usize> = (0..n).collect();
            if extra_unreg {
                colls.push(n);
            }
            // (collection, token id): user0 owns token "1" (and "2" when two are minted per user) in each;
            // second tokens of a few collections are mixed in, and the deposit order is shuffled so that
            // NFTs of one collection are not adjacent in the stored vector
            let mut sends: Vec<(usize, &str)> = colls.iter().map(|c| (*c, "1")).collect();
            if dup_coll {
                let k = self.rng.range(1, 3) as usize;
                for c in colls.iter().take(k) {
                    sends.push((*c, "2"));
                }
            }
            sends.truncate(25);
            self.rng.shuffle(&mut sends);
            for (i, (ci, tid)) in sends.iter().enumerate() {
                let inner = if i == 0 { msgs::inner_create_listing_cw721(1, &ask, None) } else { msgs::inner_add_to_listing_cw721(1) };
                self.script.push_back(Op::tx(seller, &names.colls[*ci], msgs::cw721_send(m, tid, &inner), vec![]));
            }
            self.script.push_back(Op::tx(seller, m, msgs::finalize(1, 3600), vec![]));
            match (&buyer_nft, nft_only) {
                (Some(x), true) => {
                    self.script.push_back(Op::tx(buyer, &x.0, msgs::cw721_send(m, &x.1, &msgs::inner_create_bucket_cw721(1)), vec![]))
                }
                _ => self.script.push_back(Op::tx(buyer, m, msgs::create_bucket(1), vec![fund(denom, price)])),
            }
            self.script.push_back(Op::tx(buyer, m, msgs::buy(1, 1), vec![]));
        }
        if !seller_side || both {
            // seller sells coins, asks for one NFT of each registered collection owned by user2
            let buyer2 = "user2";
            let mut ask = AskSpec::default();
            let mut colls: Vec<usize> = (0..n).collect();
            if extra_unreg {
                colls.push(n);
            }
            // user2's first token id = 2*per_user+1; the world records nfts_per_user in cfg, but the
            // generator only sees names; recover it from the observed owners at run time instead
            for ci in &colls {
                ask.nfts.push((names.colls[*ci].clone(), String::from("@user2")));
            }
            self.script.push_back(Op::Probe { kind: "__resolve_user2_tokens".into(), arg: 0 });
            // the placeholder is resolved in `next` (see resolve_placeholders)
            let goods_nft = if nft_only {
                _o.nft_owner.iter().find(|(x, ow)| x.0 == last && ow.as_str() == "user0" && x.1 != "1" && x.1 != "2").map(|(x, _)| x.clone())
            } else {
                None
            };
            self.pending_goods_nft = goods_nft;
            self.pending_ask = Some((ask, denom.to_string(), price, buyer2.to_string()));
        }
        let _ = seller_side;
    }

    /// two DIFFERENT NFTs whose identifiers read the same when glued together (contract1 #12 and
    /// contract11 #2): a listing asks for one, somebody offers the other — must be refused
    fn script_confusable(&mut self, o: &Obs, names: &Names) {
        let mut by_key: std::collections::BTreeMap<String, Vec<((String, String), String)>> = Default::default();
        for (n, ow) in &o.nft_owner {
            if names.users.contains(ow) {
                by_key.entry(format!("{}{}", n.0, n.1)).or_default().push((n.clone(), ow.clone()));
            }
        }
        let pairs: Vec<&Vec<((String, String), String)>> = by_key.values().filter(|v| v.len() >= 2).collect();
        let Some(v) = self.rng.pick_opt(&pairs) else { return };
        let (x, _) = v[0].clone();
        let (y, y_owner) = v[1].clone();
        let m = &names.market;
        let seller = self.other_user(names, &y_owner);
        // an ask naming BOTH look-alikes is duplicate-free and must be accepted
        let both = AskSpec { nfts: vec![x.clone(), y.clone()], ..Default::default() };
        self.script.push_back(Op::tx(&seller, m, msgs::create_listing(901, &both, None), vec![fund("uatom", 12)]));
        self.script.push_back(Op::tx(&seller, m, msgs::change_ask(901, &both), vec![]));
        let ask = AskSpec { nfts: vec![x], ..Default::default() };
        self.count("confusable_nft_offered");
        // ids far away from the ones the other preludes use
        self.script.push_back(Op::tx(&seller, m, msgs::create_listing(900, &ask, None), vec![fund("uatom", 11)]));
        self.script.push_back(Op::tx(&seller, m, msgs::finalize(900, 86400), vec![]));
        self.script.push_back(Op::tx(&y_owner, &y.0, msgs::cw721_send(m, &y.1, &msgs::inner_create_bucket_cw721(900)), vec![]));
        self.script.push_back(Op::tx(&y_owner, m, msgs::buy(900, 900), vec![]));
        self.script.push_back(Op::tx(&y_owner, m, msgs::remove_bucket(900), vec![]));
    }

    fn script_bulk_owner(&mut self, _o: &Obs, names: &Names) {
        let m = &names.market;
        let owner = "user0";
        let n_buckets = self.rng.range(235, 262);
        let n_listings = if self.rng.chance(1, 2) { self.rng.range(238, 262) } else { self.rng.range(15, 45) };
        for i in 1..=n_buckets {
            self.script.push_back(Op::tx(owner, m, msgs::create_bucket(i), vec![fund("uatom", i as u128)]));
        }
        let ask = AskSpec { native: vec![("ujunox".into(), 1000)], ..Default::default() };
        // sometimes (nearly) every listing is reserved for one buyer (more than 256 reserved entries)
        let reserve_all = self.rng.chance(1, 3);
        let n_listings = if reserve_all { self.rng.range(258, 300) } else { n_listings };
        for i in 1..=n_listings {
            let wl = if i % 7 == 0 || (reserve_all && i % 50 != 1) { Some("user1") } else { None };
            self.script.push_back(Op::tx(owner, m, msgs::create_listing(i, &ask, wl), vec![fund("uatom", 1 + i as u128)]));
            if i % 3 != 0 {
                let secs = *self.rng.pick(&LIFETIMES);
                self.script.push_back(Op::tx(owner, m, msgs::finalize(i, secs), vec![]));
            }
            if i % 40 == 0 {
                self.script.push_back(Op::Advance { dt_ns: self.rng.range(1, 3_000_000_000), dblocks: 1 });
            }
        }
        self.next_id_hint = n_buckets.max(n_listings) + 1;
    }

    fn script_asset_stack(&mut self, o: &Obs, names: &Names) {
        let m = &names.market;
        if names.natives.len() > 25 {
            // creation is not capped: a record born with 26+ denominations must still be payable
            let k = self.rng.range(26, names.natives.len() as u64) as usize;
            let coins: Vec<Fund> = names.natives.iter().take(k).enumerate().map(|(i, d)| fund(d, 300 + i as u128)).collect();
            self.count("record_created_with_over_25_coins");
            self.script.push_back(Op::tx("user1", m, msgs::create_bucket(7), coins.clone()));
            let ask = AskSpec { native: vec![("ujunox".into(), 500)], ..Default::default() };
            self.script.push_back(Op::tx("user2", m, msgs::create_listing(7, &ask, None), coins));
            self.script.push_back(Op::tx("user2", m, msgs::finalize(7, 600), vec![]));
            self.script.push_back(Op::tx("user1", m, msgs::create_bucket(8), vec![fund("ujunox", 500)]));
            self.script.push_back(Op::tx("user1", m, msgs::buy(7, 8), vec![]));
            if self.rng.chance(1, 2) {
                self.script.push_back(Op::tx("user1", m, msgs::withdraw_purchased(7), vec![]));
                self.script.push_back(Op::tx("user1", m, msgs::remove_bucket(7), vec![]));
            }
            self.next_id_hint = 9;
        }
        let who = "user0";
        let target = *self.rng.pick(&[24usize, 25, 26, 27]);
        let as_listing = self.rng.chance(1, 2);
        let ask = AskSpec { native: vec![("ujunox".into(), 777)], ..Default::default() };
        let mut pieces: Vec<Piece> = vec![];
        for d in &names.natives {
            pieces.push(Piece::Native(vec![fund(d, self.rng.range(1, 500) as u128)]));
        }
        for t in &names.cw20s {
            pieces.push(Piece::Cw20(t.clone(), self.rng.range(1, 500) as u128));
        }
        for n in self.nfts_of(o, who) {
            pieces.push(Piece::Nft(n.0, n.1));
        }
        self.rng.shuffle(&mut pieces);
        pieces.truncate(target);
        for (i, p) in pieces.iter().enumerate() {
            let op = if i == 0 {
                if as_listing {
                    self.deposit_op(names, who, p, msgs::create_listing(1, &ask, None), msgs::inner_create_listing_cw20(1, &ask, None), msgs::inner_create_listing_cw721(1, &ask, None))
                } else {
                    self.deposit_op(names, who, p, msgs::create_bucket(1), msgs::inner_create_bucket_cw20(1), msgs::inner_create_bucket_cw721(1))
                }
            } else if as_listing {
                self.deposit_op(names, who, p, msgs::add_to_listing(1), msgs::inner_add_to_listing_cw20(1), msgs::inner_add_to_listing_cw721(1))
            } else {
                self.deposit_op(names, who, p, msgs::add_to_bucket(1), msgs::inner_add_to_bucket_cw20(1), msgs::inner_add_to_bucket_cw721(1))
            };
            self.script.push_back(op);
            // merged top-up of an asset that is already inside must still be accepted at 25
            if i + 1 == pieces.len() && self.rng.chance(1, 2) {
                if let Piece::Native(c) = &pieces[0] {
                    let again = Piece::Native(vec![fund(&c[0].denom, 1)]);
                    let op = if as_listing {
                        self.deposit_op(names, who, &again, msgs::add_to_listing(1), Value::Null, Value::Null)
                    } else {
                        self.deposit_op(names, who, &again, msgs::add_to_bucket(1), Value::Null, Value::Null)
                    };
                    self.script.push_back(op);
                }
            }
        }
        // an ask with 25 / 26 items as well
        let mut big = AskSpec::default();
        let k = *self.rng.pick(&[25usize, 26]);
        for i in 0..k {
            big.native.push((format!("udenom{i}"), 1 + i as u128));
        }
        self.script.push_back(Op::tx("user1", m, msgs::create_listing(2, &big, None), vec![fund("uatom", 5)]));
        self.next_id_hint = 3;
    }

    // ------------------------------------------------------------------ the scheduler

    pub fn next(&mut self, sim: &Sim, o: &Obs) -> Op {
        let op = self.next_inner(sim, o);
        // a contract account cannot sign: its messages travel through its own `forward` entry point,
        // triggered by an externally owned account (one more dispatch in front of everything else)
        let op = match op {
            // (a contract calling the hooks itself, with whatever sender it likes, is the C18 probe's business:
            // in ordinary traffic such a message is signed by the bystander instead)
            Op::Tx { from, to, msg, funds, fail_msg, fail_query }
                if from == sim.names.hostile && msg.as_object().map_or(false, |o| o.contains_key("receive") || o.contains_key("receive_nft")) =>
            {
                Op::Tx { from: BYSTANDER.to_string(), to, msg, funds, fail_msg, fail_query }
            }
            Op::Tx { from, to, msg, funds, fail_msg, fail_query } if from == sim.names.hostile && to != sim.names.hostile => {
                self.count("contract_account_acts");
                let f: Vec<(String, u128)> = funds.iter().map(|x| (x.denom.clone(), x.amount)).collect();
                Op::Tx {
                    from: BYSTANDER.to_string(),
                    to: sim.names.hostile.clone(),
                    msg: msgs::hostile_forward(&to, &msg, &f),
                    funds: vec![],
                    fail_msg: fail_msg.map(|i| i + 1),
                    fail_query,
                }
            }
            other => other,
        };
        if let Some(a) = crate::spec::classify(&op, &sim.names) {
            match a.act {
                crate::spec::Act::CreateListing { id, .. } => {
                    self.seen_listing_ids.insert(id);
                }
                crate::spec::Act::CreateBucket { id, .. } => {
                    self.seen_bucket_ids.insert(id);
                }
                _ => {}
            }
        }
        op
    }

    fn next_inner(&mut self, sim: &Sim, o: &Obs) -> Op {
        let names = &sim.names;
        if let Some(op) = self.script.pop_front() {
            if let Op::Probe { kind, .. } = &op {
                if kind == "__resolve_user2_tokens" {
                    self.resolve_pending_ask(o, names);
                    return self.next_inner(sim, o);
                }
            }
            return op;
        }
        let w: [u32; 18] = match self.mode {
            Mode::General | Mode::Faulty => [10, 6, 3, 9, 14, 3, 12, 7, 5, 4, 2, 4, 8, 6, 3, 2, 1, 0],
            Mode::Flipper => [14, 3, 1, 12, 14, 1, 16, 5, 5, 2, 3, 1, 6, 2, 2, 1, 0, 0],
            Mode::RoyaltyStack => [6, 3, 1, 8, 12, 1, 12, 6, 4, 3, 1, 8, 6, 3, 2, 1, 2, 0],
            Mode::BulkOwner => [6, 2, 1, 6, 6, 1, 6, 4, 6, 6, 1, 1, 8, 3, 1, 1, 0, 0],
            Mode::AssetStack => [4, 10, 2, 5, 8, 10, 6, 4, 4, 4, 1, 1, 4, 3, 1, 1, 0, 0],
            Mode::RegistryHeavy => [6, 2, 1, 6, 8, 1, 8, 3, 2, 2, 1, 26, 14, 3, 2, 1, 8, 0],
            Mode::CycleHeavy => [9, 3, 1, 9, 12, 1, 12, 6, 6, 2, 14, 2, 12, 3, 2, 1, 0, 0],
            Mode::ExpiryRace => [10, 3, 1, 12, 16, 1, 14, 5, 3, 10, 1, 2, 16, 3, 4, 1, 0, 0],
            Mode::BadInput => [14, 10, 8, 6, 10, 8, 6, 3, 3, 3, 1, 3, 5, 10, 2, 1, 0, 6],
        };
        for _ in 0..12 {
            let k = self.rng.weighted(&w);
            let op = match k {
                0 => self.mv_create_listing(o, names),
                1 => self.mv_add_to_listing(o, names),
                2 => self.mv_change_ask(o, names),
                3 => self.mv_finalize(o, names),
                4 => self.mv_build_bucket(o, names),
                5 => self.mv_add_to_bucket_random(o, names),
                6 => self.mv_buy(o, names),
                7 => self.mv_withdraw(o, names),
                8 => self.mv_remove_bucket(o, names),
                9 => self.mv_delete(o, names),
                10 => self.mv_cycle(o, names),
                11 => self.mv_registry(o, names),
                12 => self.mv_clock(o, names),
                13 => self.mv_freeform(o, names),
                14 => {
                    let r = self.recent.last().cloned().filter(|_| self.rng.chance(1, 2)).or_else(|| self.rng.pick_opt(&self.recent.clone()).cloned());
                    if r.is_some() {
                        self.count("duplicate");
                    }
                    r
                }
                17 => self.mv_sloppy(o, names),
                15 => self.mv_bystander(o, names),
                16 => self.mv_admin_change(o, names),
                _ => None,
            };
            if let Some(mut op) = op {
                self.buggify(sim, o, &mut op);
                if op.is_tx() {
                    self.recent.push(op.clone());
                    if self.recent.len() > 6 {
                        self.recent.remove(0);
                    }
                }
                return op;
            }
        }
        Op::Advance { dt_ns: 1_000_000_000, dblocks: 1 }
    }

    /// cooperative fault points: coins on non-deposit messages, a different signer, a failing
    /// outgoing message or cross-contract query inside the operation
    fn buggify(&mut self, sim: &Sim, _o: &Obs, op: &mut Op) {
        let names = &sim.names;
        let Op::Tx { from, to, msg, funds, fail_msg, fail_query } = op else { return };
        let key = msg.as_object().and_then(|m| m.keys().next().cloned()).unwrap_or_default();
        let non_deposit = *to == names.market
            && matches!(
                key.as_str(),
                "change_ask" | "finalize" | "delete_listing" | "remove_bucket" | "buy_listing" | "withdraw_purchased" | "fee_cycle"
            );
        if self.attach && non_deposit && funds.is_empty() && self.rng.chance(1, 6) {
            let d = self.rng.pick(&names.natives).clone();
            funds.push(fund(&d, self.rng.range(1, 500) as u128));
            if self.rng.chance(1, 4) {
                let d2 = self.rng.pick(&names.natives).clone();
                if d2 != d {
                    funds.push(fund(&d2, self.rng.range(1, 50) as u128));
                }
            }
        }
        if self.swap_sender && self.rng.chance(1, 30) {
            *from = self.any_account(names);
            *self.counters.entry("foreign_signer").or_insert(0) += 1;
        }
        if self.faults && self.rng.chance(1, 5) {
            // dry run on a fork to learn how many messages / queries the operation issues
            let f = sim.fork();
            let dry = f.apply(&Op::Tx {
                from: from.clone(),
                to: to.clone(),
                msg: msg.clone(),
                funds: funds.clone(),
                fail_msg: None,
                fail_query: None,
            });
            if let Some(t) = dry.tx {
                if dry.ok && !t.dispatched.is_empty() && self.rng.chance(3, 4) {
                    *fail_msg = Some(self.rng.below_usize(t.dispatched.len()));
                } else if dry.ok && t.queries > 0 {
                    *fail_query = Some(self.rng.below_usize(t.queries));
                }
            }
        }
    }

    fn resolve_pending_ask(&mut self, o: &Obs, names: &Names) {
        let Some((mut ask, denom, price, buyer)) = self.pending_ask.take() else { return };
        let m = &names.market;
        // replace placeholders by the first token user2 owns in each collection
        let mut ok_nfts = vec![];
        for (c, t) in &ask.nfts {
            if t == "@user2" {
                if let Some((n, _)) = o.nft_owner.iter().find(|(n, ow)| n.0 == *c && ow.as_str() == buyer) {
                    ok_nfts.push(n.clone());
                }
            }
        }
        ask.nfts = ok_nfts;
        if ask.nfts.is_empty() {
            return;
        }
        let lid = 2;
        let bid = 2;
        let mut ops: Vec<Op> = vec![];
        match self.pending_goods_nft.take() {
            Some(x) => ops.push(Op::tx("user0", &x.0, msgs::cw721_send(m, &x.1, &msgs::inner_create_listing_cw721(lid, &ask, None)), vec![])),
            None => ops.push(Op::tx("user0", m, msgs::create_listing(lid, &ask, None), vec![fund(&denom, price)])),
        }
        ops.push(Op::tx("user0", m, msgs::finalize(lid, 3600), vec![]));
        for (i, n) in ask.nfts.iter().enumerate() {
            let inner = if i == 0 { msgs::inner_create_bucket_cw721(bid) } else { msgs::inner_add_to_bucket_cw721(bid) };
            ops.push(Op::tx(&buyer, &n.0, msgs::cw721_send(m, &n.1, &inner), vec![]));
        }
        ops.push(Op::tx(&buyer, m, msgs::buy(lid, bid), vec![]));
        for op in ops.into_iter().rev() {
            self.script.push_front(op);
        }
        self.next_id_hint = 3;
    }
}

#[derive(Clone, Debug, PartialEq)]
pub enum Piece {
    Native(Vec<Fund>),
    Cw20(String, u128),
    Nft(String, String),
}
