//! World configuration and set-up: accounts, token contracts, collections, the marketplace and
//! (through the marketplace's own instantiate + reply path) the royalty registry.

use serde::{Deserialize, Serialize};

use crate::chain::Chain;
use crate::contracts::Kind;

pub mod u128str {
    use serde::{Deserialize, Deserializer, Serializer};
    pub fn serialize<S: Serializer>(v: &u128, s: S) -> Result<S::Ok, S::Error> {
        s.serialize_str(&v.to_string())
    }
    pub fn deserialize<'de, D: Deserializer<'de>>(d: D) -> Result<u128, D::Error> {
        let s = String::deserialize(d)?;
        s.parse::<u128>().map_err(serde::de::Error::custom)
    }
}

#[derive(Clone, Debug, Serialize, Deserialize, PartialEq, Eq)]
pub struct CollCfg {
    /// chain-level admin of the NFT contract (who may register royalties); None = no admin
    pub admin: Option<String>,
    #[serde(default)]
    pub sloppy: bool,
}

#[derive(Clone, Debug, Serialize, Deserialize, PartialEq, Eq)]
pub struct WorldCfg {
    pub users: usize,
    pub natives: Vec<String>,
    pub n_cw20: usize,
    pub colls: Vec<CollCfg>,
    #[serde(with = "u128str")]
    pub native_amt: u128,
    #[serde(with = "u128str")]
    pub cw20_amt: u128,
    pub nfts_per_user: usize,
    pub lenient_bank: bool,
    pub start_ns: u64,
    pub start_height: u64,
    /// add a careless CW20-shaped token (reports the true sender, keeps no balances, accepts zero
    /// amounts) as the last entry of the token list — C12 worlds only
    #[serde(default)]
    pub sloppy20: bool,
    /// a contract account (a "smart wallet": the forwarding stub) takes part in the market like any user —
    /// it holds coins, tokens and NFTs and sends its messages through `forward`
    #[serde(default)]
    pub contract_trader: bool,
}

pub const DEPLOYER: &str = "deployer";
pub const MINTER: &str = "minter";
pub const ADMINS: [&str; 3] = ["adm0", "adm1", "adm2"];
pub const PAYOUTS: [&str; 4] = ["pay0", "pay1", "pay2", "pay3"];
pub const BYSTANDER: &str = "bystander";

#[derive(Clone, Debug)]
pub struct Names {
    pub market: String,
    pub registry: String,
    pub hostile: String,
    pub cw20s: Vec<String>,
    /// parallel to cw20s
    pub sloppy20: Vec<bool>,
    pub colls: Vec<String>,
    pub sloppy: Vec<bool>,
    pub users: Vec<String>,
    pub natives: Vec<String>,
}

impl Names {
    /// every externally owned account that may hold assets or sign
    pub fn accounts(&self) -> Vec<String> {
        let mut v = self.users.clone();
        v.push(DEPLOYER.to_string());
        v.push(MINTER.to_string());
        for a in ADMINS {
            v.push(a.to_string());
        }
        for p in PAYOUTS {
            v.push(p.to_string());
        }
        v.push(BYSTANDER.to_string());
        v
    }
    pub fn is_coll(&self, a: &str) -> bool {
        self.colls.iter().any(|c| c == a)
    }
    pub fn is_cw20(&self, a: &str) -> bool {
        self.cw20s.iter().any(|c| c == a)
    }
    pub fn is_sloppy20(&self, a: &str) -> bool {
        self.cw20s.iter().position(|c| c == a).map_or(false, |i| self.sloppy20[i])
    }
    pub fn is_sloppy721(&self, a: &str) -> bool {
        self.colls.iter().position(|c| c == a).map_or(false, |i| self.sloppy[i])
    }
}

pub fn token_id(user_idx: usize, j: usize, per_user: usize) -> String {
    format!("{}", user_idx * per_user + j + 1)
}

pub fn build(cfg: &WorldCfg) -> Result<(Chain, Names), String> {
    let chain = Chain::new(cfg.start_ns, cfg.start_height, cfg.lenient_bank);
    let code_cw20 = chain.store_code(Kind::Cw20);
    let code_cw721 = chain.store_code(Kind::Cw721);
    let code_market = chain.store_code(Kind::Market);
    let code_royalty = chain.store_code(Kind::Royalty);
    let code_hostile = chain.store_code(Kind::Hostile);
    let code_sloppy = chain.store_code(Kind::Sloppy721);
    let code_sloppy20 = chain.store_code(Kind::Sloppy20);

    let users: Vec<String> = (0..cfg.users).map(|i| format!("user{i}")).collect();

    // native balances
    for u in &users {
        for d in &cfg.natives {
            chain.mint(u, d, cfg.native_amt);
        }
    }
    // the bystander and admins hold a little of the first denomination too
    if let Some(d) = cfg.natives.first() {
        chain.mint(BYSTANDER, d, 1_000_000);
        for a in ADMINS {
            chain.mint(a, d, 1_000_000);
        }
        chain.mint(DEPLOYER, d, 1_000_000);
    }

    // CW20s
    let mut cw20s = vec![];
    for k in 0..cfg.n_cw20 {
        let balances: Vec<serde_json::Value> = users
            .iter()
            .map(|u| serde_json::json!({"address": u, "amount": cfg.cw20_amt.to_string()}))
            .collect();
        let sym = format!("TOK{}", (b'A' + k as u8) as char);
        let msg = serde_json::json!({
            "name": format!("token{k}"), "symbol": sym, "decimals": 6,
            "initial_balances": balances, "mint": null, "marketing": null
        });
        let addr = chain.instantiate(DEPLOYER, code_cw20, &serde_json::to_vec(&msg).unwrap(), None)?;
        cw20s.push(addr);
    }

    // collections
    let mut colls = vec![];
    let mut sloppy = vec![];
    for (k, c) in cfg.colls.iter().enumerate() {
        if c.sloppy {
            let addr = chain.instantiate(MINTER, code_sloppy, b"{}", c.admin.clone())?;
            colls.push(addr);
            sloppy.push(true);
            continue;
        }
        let msg = serde_json::json!({"name": format!("coll{k}"), "symbol": format!("C{k}"), "minter": MINTER});
        let addr = chain.instantiate(MINTER, code_cw721, &serde_json::to_vec(&msg).unwrap(), c.admin.clone())?;
        for (ui, u) in users.iter().enumerate() {
            for j in 0..cfg.nfts_per_user {
                let m = serde_json::json!({"mint": {
                    "token_id": token_id(ui, j, cfg.nfts_per_user), "owner": u,
                    "token_uri": null, "extension": null
                }});
                let out = chain.tx(MINTER, &addr, &serde_json::to_vec(&m).unwrap(), &[], Default::default());
                if !out.ok {
                    return Err(format!("mint failed: {}", out.err));
                }
            }
        }
        colls.push(addr);
        sloppy.push(false);
    }

    // marketplace (+ registry through its instantiate sub-message and reply)
    let msg = serde_json::json!({ "royalty_code_id": code_royalty });
    let market = chain.instantiate(DEPLOYER, code_market, &serde_json::to_vec(&msg).unwrap(), None)?;
    let reg = chain
        .smart_query(&market, br#"{"get_royalty_addr":{}}"#)
        .map_err(|e| format!("get_royalty_addr: {e}"))?;
    let registry: Option<String> = serde_json::from_slice(reg.as_slice()).map_err(|e| e.to_string())?;
    let registry = registry.ok_or("market has no registry")?;

    let hostile = chain.instantiate(DEPLOYER, code_hostile, b"{}", None)?;
    let mut users = users;
    if cfg.contract_trader {
        for d in &cfg.natives {
            chain.mint(&hostile, d, cfg.native_amt / 2);
        }
        for t in &cw20s {
            let m = serde_json::json!({"transfer": {"recipient": hostile, "amount": (cfg.cw20_amt / 4).to_string()}});
            let out = chain.tx(&users[0], t, &serde_json::to_vec(&m).unwrap(), &[], Default::default());
            if !out.ok {
                return Err(format!("set-up transfer to the contract account failed: {}", out.err));
            }
        }
        for (k, c) in colls.iter().enumerate() {
            if sloppy[k] {
                continue;
            }
            for j in 0..cfg.nfts_per_user.min(2) {
                let m = serde_json::json!({"mint": {"token_id": format!("w{}", j + 1), "owner": hostile, "token_uri": null, "extension": null}});
                let out = chain.tx(MINTER, c, &serde_json::to_vec(&m).unwrap(), &[], Default::default());
                if !out.ok {
                    return Err(format!("set-up mint to the contract account failed: {}", out.err));
                }
            }
        }
        users.push(hostile.clone());
    }
    let mut sloppy20: Vec<bool> = cw20s.iter().map(|_| false).collect();
    if cfg.sloppy20 {
        // instantiated last so that all other addresses are the same with and without it
        let a = chain.instantiate(DEPLOYER, code_sloppy20, b"{}", None)?;
        cw20s.push(a);
        sloppy20.push(true);
    }

    Ok((
        chain,
        Names { market, registry, hostile, cw20s, sloppy20, colls, sloppy, users, natives: cfg.natives.clone() },
    ))
}
