//! Fidelity self-test (not a property check): the same Stargate-free history prefixes are executed
//! on the fzsim chain stub and on cw-multi-test 0.16.5 — the model the repository's own tests
//! trust — and the outcome of every transaction plus the final storage of the marketplace and of
//! the registry and all ledgers are compared.  Guards the hand-written router / bank / querier
//! against drifting from that reference.  cw-multi-test cannot execute community-pool messages,
//! so a history is compared up to (not including) the first transaction that emits one.

use cosmwasm_std::{Addr, BankMsg, Binary, BlockInfo, Coin, CosmosMsg, Empty, Timestamp, WasmMsg};
use cw_multi_test::{App, Contract, ContractWrapper, Executor};

use crate::gen::{self, Gen, Mode};
use crate::ops::{funds_to_coins, Op};
use crate::prng::Prng;
use crate::run::{Exec, PropCfg};
use crate::world::{token_id, WorldCfg, ADMINS, BYSTANDER, DEPLOYER, MINTER};

fn c_cw20() -> Box<dyn Contract<Empty>> {
    Box::new(ContractWrapper::new(cw20_base::contract::execute, cw20_base::contract::instantiate, cw20_base::contract::query))
}
fn c_cw721() -> Box<dyn Contract<Empty>> {
    Box::new(ContractWrapper::new(cw721_base::entry::execute, cw721_base::entry::instantiate, cw721_base::entry::query))
}
fn c_market() -> Box<dyn Contract<Empty>> {
    Box::new(
        ContractWrapper::new(marketplace::contract::execute, marketplace::contract::instantiate, marketplace::contract::query)
            .with_reply(marketplace::contract::reply),
    )
}
fn c_royalty() -> Box<dyn Contract<Empty>> {
    Box::new(ContractWrapper::new(royalty::contract::execute, royalty::contract::instantiate, royalty::contract::query))
}

fn raw_exec(app: &mut App, sender: &str, contract: &str, msg: &[u8], funds: &[Coin]) -> bool {
    // a contract panic (e.g. arithmetic overflow, which aborts the transaction on chain) unwinds through
    // cw-multi-test; its transactional cache is dropped, the base storage is untouched
    std::panic::catch_unwind(std::panic::AssertUnwindSafe(|| raw_exec_inner(app, sender, contract, msg, funds))).unwrap_or(false)
}

fn raw_exec_inner(app: &mut App, sender: &str, contract: &str, msg: &[u8], funds: &[Coin]) -> bool {
    app.execute(
        Addr::unchecked(sender),
        CosmosMsg::Wasm(WasmMsg::Execute { contract_addr: contract.to_string(), msg: Binary(msg.to_vec()), funds: funds.to_vec() }),
    )
    .is_ok()
}

fn build_reference(cfg: &WorldCfg) -> Result<App, String> {
    let mut app = App::default();
    app.set_block(BlockInfo { height: cfg.start_height, time: Timestamp::from_nanos(cfg.start_ns), chain_id: crate::chain::CHAIN_ID.to_string() });
    let code_cw20 = app.store_code(c_cw20());
    let code_cw721 = app.store_code(c_cw721());
    let code_market = app.store_code(c_market());
    let code_royalty = app.store_code(c_royalty());
    let users: Vec<String> = (0..cfg.users).map(|i| format!("user{i}")).collect();
    let mut balances: Vec<(String, Vec<Coin>)> = vec![];
    for u in &users {
        balances.push((u.clone(), cfg.natives.iter().map(|d| crate::chain::coin(d, cfg.native_amt)).collect()));
    }
    if let Some(d) = cfg.natives.first() {
        let mut small = vec![BYSTANDER.to_string(), DEPLOYER.to_string()];
        for a in ADMINS {
            small.push(a.to_string());
        }
        for a in small {
            balances.push((a, vec![crate::chain::coin(d, 1_000_000)]));
        }
    }
    app.init_modules(|router, _, storage| {
        for (a, c) in &balances {
            router.bank.init_balance(storage, &Addr::unchecked(a), c.clone()).unwrap();
        }
    });
    for k in 0..cfg.n_cw20 {
        let bal: Vec<serde_json::Value> =
            users.iter().map(|u| serde_json::json!({"address": u, "amount": cfg.cw20_amt.to_string()})).collect();
        let sym = format!("TOK{}", (b'A' + k as u8) as char);
        let msg = serde_json::json!({"name": format!("token{k}"), "symbol": sym, "decimals": 6, "initial_balances": bal, "mint": null, "marketing": null});
        app.execute(
            Addr::unchecked(DEPLOYER),
            CosmosMsg::Wasm(WasmMsg::Instantiate { admin: None, code_id: code_cw20, msg: Binary(serde_json::to_vec(&msg).unwrap()), funds: vec![], label: "t".into() }),
        )
        .map_err(|e| e.to_string())?;
    }
    for (k, c) in cfg.colls.iter().enumerate() {
        if c.sloppy {
            return Err("fidelity worlds have no sloppy collection".into());
        }
        let msg = serde_json::json!({"name": format!("coll{k}"), "symbol": format!("C{k}"), "minter": MINTER});
        app.execute(
            Addr::unchecked(MINTER),
            CosmosMsg::Wasm(WasmMsg::Instantiate { admin: c.admin.clone(), code_id: code_cw721, msg: Binary(serde_json::to_vec(&msg).unwrap()), funds: vec![], label: "c".into() }),
        )
        .map_err(|e| e.to_string())?;
        let addr = format!("contract{}", cfg.n_cw20 + k);
        for (ui, u) in users.iter().enumerate() {
            for j in 0..cfg.nfts_per_user {
                let m = serde_json::json!({"mint": {"token_id": token_id(ui, j, cfg.nfts_per_user), "owner": u, "token_uri": null, "extension": null}});
                if !raw_exec(&mut app, MINTER, &addr, &serde_json::to_vec(&m).unwrap(), &[]) {
                    return Err("reference mint failed".into());
                }
            }
        }
    }
    let msg = serde_json::json!({ "royalty_code_id": code_royalty });
    app.execute(
        Addr::unchecked(DEPLOYER),
        CosmosMsg::Wasm(WasmMsg::Instantiate { admin: None, code_id: code_market, msg: Binary(serde_json::to_vec(&msg).unwrap()), funds: vec![], label: "m".into() }),
    )
    .map_err(|e| e.to_string())?;
    Ok(app)
}

pub fn run(seed: u64, runs: u64) -> i32 {
    let modes = [Mode::General, Mode::Flipper, Mode::RegistryHeavy, Mode::BadInput, Mode::ExpiryRace, Mode::CycleHeavy, Mode::AssetStack];
    let prop = PropCfg { id: "FID", modes: modes.to_vec(), probe: None, faultenum: false, attach: true, runs, max_steps: 90, kinds: &[] };
    let mut txs = 0u64;
    let mut oks = 0u64;
    let mut cut = 0u64;
    for r in 0..runs {
        let mode = modes[(r % modes.len() as u64) as usize];
        let mut rng = Prng::for_run(seed, "FID", r);
        let (mut cfg, amt) = gen::world_for(mode, &mut rng);
        cfg.lenient_bank = true; // cw-multi-test's bank
        cfg.colls.retain(|c| !c.sloppy);
        cfg.sloppy20 = false;
        cfg.contract_trader = false;
        let mut exec = match Exec::new(&cfg, false) {
            Ok(e) => e,
            Err(e) => {
                eprintln!("fidelity: set-up failed: {e}");
                return 2;
            }
        };
        let mut app = match build_reference(&cfg) {
            Ok(a) => a,
            Err(e) => {
                eprintln!("fidelity: reference set-up failed: {e}");
                return 2;
            }
        };
        let mut g = Gen::new(mode, rng, amt);
        g.faults = false;
        g.prepare_script(&exec.obs, &exec.sim.names);
        let mut steps = 0;
        while steps < 90 {
            steps += 1;
            let op = g.next(&exec.sim, &exec.obs);
            // would this emit a community-pool message?  then the comparable prefix ends here
            if let Op::Tx { .. } = &op {
                let f = exec.sim.fork();
                let dry = f.apply(&op);
                if dry.tx.as_ref().map_or(false, |t| !t.pool_msgs.is_empty()) {
                    cut += 1;
                    break;
                }
            }
            let before = exec.stats.tx_ok;
            let _ = exec.step(&op, &prop);
            let sim_ok = exec.stats.tx_ok > before;
            match &op {
                Op::Tx { from, to, msg, funds, .. } => {
                    txs += 1;
                    let ref_ok = raw_exec(&mut app, from, to, &serde_json::to_vec(msg).unwrap(), &funds_to_coins(funds));
                    if ref_ok {
                        oks += 1;
                    }
                    if ref_ok != sim_ok {
                        println!("FIDELITY MISMATCH run {r} step {steps}: {} -> fzsim ok={sim_ok}, cw-multi-test ok={ref_ok}", op.short());
                        return 1;
                    }
                }
                Op::Advance { dt_ns, dblocks } => {
                    let (d, b) = (*dt_ns, *dblocks);
                    app.update_block(|bl| {
                        bl.time = Timestamp::from_nanos(bl.time.nanos().saturating_add(d));
                        bl.height = bl.height.saturating_add(b);
                    });
                }
                Op::SetAdmin { from, contract, admin } => {
                    let m = match admin {
                        Some(a) => WasmMsg::UpdateAdmin { contract_addr: contract.clone(), admin: a.clone() },
                        None => WasmMsg::ClearAdmin { contract_addr: contract.clone() },
                    };
                    let _ = app.execute(Addr::unchecked(from), CosmosMsg::Wasm(m));
                }
                Op::Probe { .. } => {}
                Op::Mint { to, denom, amount } => {
                    if exec.stats.tx_ok >= before && exec.sim.chain.0.borrow().bank_get(to, denom) > 0 {
                        // mirror the credit: cw-multi-test's init_balance replaces the whole balance
                        let mut cur: Vec<Coin> = app.wrap().query_all_balances(to.clone()).unwrap();
                        match cur.iter_mut().find(|c| c.denom == *denom) {
                            Some(c) => c.amount = cosmwasm_std::Uint128::new(exec.sim.chain.0.borrow().bank_get(to, denom)),
                            None => cur.push(crate::chain::coin(denom, exec.sim.chain.0.borrow().bank_get(to, denom))),
                        }
                        let (t, _a) = (to.clone(), *amount);
                        app.init_modules(|router, _, storage| {
                            router.bank.init_balance(storage, &Addr::unchecked(t.clone()), cur.clone()).unwrap();
                        });
                    }
                }
            }
        }
        // final state: contract storage of market, registry, tokens; bank balances
        let names = exec.sim.names.clone();
        let mut contracts: Vec<String> = vec![names.market.clone(), names.registry.clone()];
        contracts.extend(names.cw20s.iter().cloned());
        contracts.extend(names.colls.iter().cloned());
        for c in &contracts {
            let mut a: Vec<(Vec<u8>, Vec<u8>)> = app.dump_wasm_raw(&Addr::unchecked(c));
            a.sort();
            let st = crate::chain::CStore::new(&exec.sim.chain, c);
            let mut b: Vec<(Vec<u8>, Vec<u8>)> = cosmwasm_std::Storage::range(&st, None, None, cosmwasm_std::Order::Ascending).collect();
            b.sort();
            if a != b {
                println!("FIDELITY MISMATCH run {r}: storage of {c} differs ({} vs {} entries)", a.len(), b.len());
                return 1;
            }
        }
        let mut who: Vec<String> = names.accounts();
        who.push(names.market.clone());
        for w in &who {
            let mut a: Vec<(String, u128)> =
                app.wrap().query_all_balances(w).unwrap().into_iter().map(|c| (c.denom, c.amount.u128())).collect();
            a.sort();
            let mut b = exec.sim.chain.0.borrow().bank_all(w);
            b.sort();
            if a != b {
                println!("FIDELITY MISMATCH run {r}: bank balance of {w}: reference {:?}, fzsim {:?}", a, b);
                return 1;
            }
        }
        let _ = BankMsg::Burn { amount: vec![] };
    }
    println!("fidelity: {runs} histories, {txs} transactions ({oks} successful) identical on fzsim and cw-multi-test 0.16.5; {cut} histories cut at their first community-pool message");
    0
}
