//! Oracles evaluated after every step: one-step refinement against `spec`, cross-invariants on
//! the observed state, and history monitors with ghost variables.  All monitors always run;
//! a check reports only the rules of its own property (rule ids are `Cxx.name`).

use std::collections::{BTreeMap, BTreeSet};

use crate::obs::{Fung, LRec, Obs, St};
use crate::ops::{Op, StepOut};
use crate::spec::{self, Act, Action, Effect, Expect, Ghost, Verdict};
use crate::world::Names;

#[derive(Clone, Debug, PartialEq)]
pub struct Finding {
    pub rule: &'static str,
    /// stable, short: the specific call site / input shape (used to match known findings)
    pub sig: String,
    pub detail: String,
}

impl Finding {
    pub fn new(rule: &'static str, sig: impl Into<String>, detail: impl Into<String>) -> Finding {
        Finding { rule, sig: sig.into(), detail: detail.into() }
    }
    pub fn prop(&self) -> &str {
        &self.rule[..self.rule.find('.').unwrap_or(self.rule.len())]
    }
}

#[derive(Clone, Debug)]
struct TraceEntry {
    stage: u8, // 0 preparing, 1 finalized, 2 sold, 3 gone
    snap: Option<(crate::obs::Assets, crate::obs::Assets, Option<String>, Option<u64>, Option<u64>)>,
}

#[derive(Clone)]
pub struct Monitor {
    pub ghost: Ghost,
    pub lenient: bool,
    pub tainted: bool,
    buys: BTreeMap<u64, u32>,
    /// record instances that exist according to the history: (is_listing, owner, id)
    live: BTreeSet<(bool, String, u64)>,
    traces: BTreeMap<u64, TraceEntry>,
    pub charged: BTreeMap<String, u128>,
    pub reach: BTreeMap<&'static str, u64>,
    /// (state class, message kind, outcome) transitions seen, as stable hashes
    pub transitions: BTreeSet<u64>,
    pub state_classes: BTreeSet<u64>,
    /// bucket ids that came out of a sale (proceeds buckets)
    pub proceeds: BTreeSet<u64>,
    /// listing ids whose finalize-to-buy window saw a registry change
    reg_changed_since: BTreeMap<u64, bool>,
    pub last_fee_switch_step: Option<usize>,
    pub step_no: usize,
    /// coarse, property-independent description of the last judged transaction (coverage accounting)
    pub last_case: u64,
    /// per listing id: hash of the sequence of (actor role, message kind, outcome) aimed at it, and the
    /// actors in order of first appearance (role 0 = creator, 1 = second distinct account, …)
    pub listing_seq: BTreeMap<u64, (u64, Vec<String>)>,
}

fn stage_of(s: St) -> u8 {
    match s {
        St::Preparing => 0,
        St::Finalized => 1,
        St::Sold => 2,
    }
}

impl Monitor {
    pub fn new(initial: &Obs, lenient: bool) -> Monitor {
        let mut el = BTreeSet::new();
        el.insert(0);
        let mut eb = BTreeSet::new();
        eb.insert(0);
        Monitor {
            ghost: Ghost { ever_listing: el, ever_bucket: eb, last_switch_s: initial.time_ns / 1_000_000_000, last_switch_ns: initial.time_ns },
            lenient,
            tainted: false,
            buys: BTreeMap::new(),
            live: BTreeSet::new(),
            traces: BTreeMap::new(),
            charged: BTreeMap::new(),
            reach: BTreeMap::new(),
            transitions: BTreeSet::new(),
            state_classes: BTreeSet::new(),
            proceeds: BTreeSet::new(),
            reg_changed_since: BTreeMap::new(),
            last_fee_switch_step: None,
            step_no: 0,
            last_case: 0,
            listing_seq: BTreeMap::new(),
        }
    }

    pub fn hit(&mut self, name: &'static str) {
        *self.reach.entry(name).or_insert(0) += 1;
    }

    pub fn expect(&self, pre: &Obs, a: &Action, names: &Names) -> Expect {
        spec::expect(pre, a, names, &self.ghost, self.lenient)
    }

    /// Evaluate every oracle for one executed step.
    pub fn step(
        &mut self,
        pre: &Obs,
        op: &Op,
        action: Option<&Action>,
        out: &StepOut,
        post: &Obs,
        names: &Names,
    ) -> Vec<Finding> {
        self.step_no += 1;
        let mut f: Vec<Finding> = vec![];
        match op {
            Op::Tx { fail_msg, fail_query, .. } => {
                let a = action.expect("tx without action");
                let txo = out.tx.as_ref().unwrap();
                let exp = self.expect(pre, a, names);
                let kind = a.act.kind();
                let fired = txo.fault_fired;
                let _ = fail_query;
                self.note_reach_pre(pre, a, &exp, out.ok, names, fail_msg.is_some() && fired);

                // C10(a): every community-pool message the market emits must be well-formed
                for pm in &txo.pool_msgs {
                    if pm.from == names.market {
                        self.hit("pool_msg_seen");
                        if let Some(r) = &pm.rejected {
                            if r.contains("insufficient funds") {
                                f.push(Finding::new("C10.pool_deposit_unfunded", kind, format!("{kind}: {r}")));
                            } else {
                                f.push(Finding::new("C10.malformed_pool_msg", kind, format!("{kind}: {r}")));
                            }
                        }
                    }
                }

                if !out.ok {
                    if pre != post {
                        f.push(Finding::new(
                            "SIM.atomicity",
                            kind,
                            format!("failed tx changed observable state ({})", out.err),
                        ));
                    }
                    if exp.verdict == Verdict::Succeed && !fired {
                        for r in refusal_rules(a, pre, names) {
                            f.push(Finding::new(r, kind, format!("{} by {} refused: {}", kind, a.sender, out.err)));
                        }
                    }
                } else {
                    if fired && fail_msg.is_some() {
                        f.push(Finding::new(
                            "C15.partial_commit",
                            kind,
                            format!("{kind}: returned success although outgoing message #{} failed", fail_msg.unwrap()),
                        ));
                    }
                    if txo.swallowed_errors > 0 && !fired {
                        // a real (not injected) sub-message failure was swallowed: still a partial commit
                        f.push(Finding::new(
                            "C15.partial_commit",
                            kind,
                            format!("{kind}: {} sub-message error(s) swallowed by reply", txo.swallowed_errors),
                        ));
                    }
                    match &exp.verdict {
                        Verdict::Fail(rs) => {
                            let mut blamed = false;
                            for r in rs {
                                for rule in r.rules() {
                                    blamed = true;
                                    f.push(Finding::new(
                                        rule,
                                        format!("{kind}:{:?}", r),
                                        format!("{} by {} succeeded although it had to fail ({:?})", kind, a.sender, r),
                                    ));
                                }
                            }
                            if !blamed {
                                f.push(Finding::new(
                                    "SIM.env",
                                    kind,
                                    format!("{kind} succeeded although the environment had to refuse it: {:?}", rs),
                                ));
                            }
                            self.tainted = true;
                            // frame-level checks that need no model of the effect
                            self.frame_only(pre, post, a, names, &mut f);
                        }
                        Verdict::Succeed | Verdict::Any => {
                            if let Some(eff) = &exp.effect {
                                compare_effect(pre, post, eff, a, names, &mut f);
                            } else {
                                self.frame_only(pre, post, a, names, &mut f);
                            }
                        }
                    }
                    self.update_ghost(pre, a, &exp, post, names, &mut f);
                }
                // coarse case class: kind, path, outcome, verdict with reasons, class of the target record(s)
                {
                    let mut h = crate::prng::fnv1a(kind.as_bytes());
                    if let Some(d) = a.act.dep() {
                        h = crate::prng::fnv_mix(h, d.path().as_bytes());
                    }
                    h = crate::prng::fnv_mix(h, &[out.ok as u8, fired as u8, pre.fee_usdc as u8, a.via_hook as u8, (!a.attached.is_empty()) as u8]);
                    match &exp.verdict {
                        Verdict::Fail(rs) => {
                            for r in rs {
                                h = crate::prng::fnv_mix(h, &[1, *r as u8]);
                            }
                        }
                        Verdict::Succeed => h = crate::prng::fnv_mix(h, &[2]),
                        Verdict::Any => h = crate::prng::fnv_mix(h, &[3]),
                    }
                    h = crate::prng::fnv_mix(h, &target_class(pre, a).to_be_bytes());
                    self.last_case = h;
                }
                // interleaving measure: who did what to which listing, in which order, with which outcome
                let target: Option<u64> = match &a.act {
                    Act::CreateListing { id, .. }
                    | Act::AddToListing { id, .. }
                    | Act::ChangeAsk { id, .. }
                    | Act::Finalize { id, .. }
                    | Act::DeleteListing { id }
                    | Act::Withdraw { id } => Some(*id),
                    Act::Buy { lid, .. } => Some(*lid),
                    _ => None,
                };
                if let Some(id) = target {
                    let e = self.listing_seq.entry(id).or_insert((crate::prng::fnv1a(b"seq"), vec![]));
                    let role = match e.1.iter().position(|x| *x == a.sender) {
                        Some(i) => i,
                        None => {
                            e.1.push(a.sender.clone());
                            e.1.len() - 1
                        }
                    };
                    e.0 = crate::prng::fnv_mix(e.0, &[role.min(7) as u8, out.ok as u8]);
                    e.0 = crate::prng::fnv_mix(e.0, kind.as_bytes());
                }
                // transition coverage
                let sc = state_class(pre);
                self.state_classes.insert(sc);
                let verdict_tag: u8 = match &exp.verdict {
                    Verdict::Fail(_) => 0,
                    Verdict::Succeed => 1,
                    Verdict::Any => 2,
                };
                let mut h = crate::prng::fnv1a(kind.as_bytes());
                h = crate::prng::fnv_mix(h, &sc.to_be_bytes());
                h = crate::prng::fnv_mix(h, &[out.ok as u8, verdict_tag, fired as u8]);
                self.transitions.insert(h);
            }
            Op::Advance { .. } | Op::SetAdmin { .. } | Op::Probe { .. } | Op::Mint { .. } => {
                if let Op::SetAdmin { .. } = op {
                    if out.ok {
                        self.hit("admin_change");
                    }
                }
            }
        }
        self.invariants(post, names, &mut f);
        self.trace_monitor(pre, post, &mut f);
        f
    }

    fn frame_only(&self, pre: &Obs, post: &Obs, a: &Action, names: &Names, f: &mut Vec<Finding>) {
        // without a modelled effect: the market's records, fee item, registry and pool must be untouched
        if matches!(a.act, Act::TokenOther | Act::Unknown) {
            let eff = Effect::default();
            compare_records(pre, post, &eff, a, f);
            compare_misc(pre, post, &eff, a, names, f);
        }
    }

    fn update_ghost(&mut self, pre: &Obs, a: &Action, exp: &Expect, post: &Obs, _names: &Names, f: &mut Vec<Finding>) {
        let kind = a.act.kind();
        match &a.act {
            Act::CreateListing { id, .. } => {
                // a re-created id (a C09 matter) denotes a new object for the per-object monitors
                if !self.ghost.ever_listing.insert(*id) {
                    self.buys.remove(id);
                    self.traces.remove(id);
                }
                self.live.insert((true, a.sender.clone(), *id));
            }
            Act::CreateBucket { id, .. } => {
                self.ghost.ever_bucket.insert(*id);
                self.live.insert((false, a.sender.clone(), *id));
            }
            Act::Buy { lid, bid } => {
                let n = self.buys.entry(*lid).or_insert(0);
                *n += 1;
                if *n > 1 {
                    f.push(Finding::new("C03.sold_twice", kind, format!("listing {lid} purchased {} times", *n)));
                }
                self.proceeds.insert(*bid);
                if let Some(eff) = &exp.effect {
                    for fee in [&eff.fee_new.0, &eff.fee_new.1].into_iter().flatten() {
                        *self.charged.entry(fee.0.clone()).or_insert(0) += fee.1;
                    }
                }
                // entitlements move with the records
                if let Some(l) = pre.listing_by_id(*lid) {
                    let seller = l.key_owner.clone();
                    if self.live.remove(&(true, seller.clone(), *lid)) {
                        self.live.insert((true, a.sender.clone(), *lid));
                    }
                    if self.live.remove(&(false, a.sender.clone(), *bid)) {
                        self.live.insert((false, seller, *bid));
                    }
                }
            }
            Act::DeleteListing { id } | Act::Withdraw { id } => {
                // each record pays out once: a payout for a key whose record was never created, or
                // was already paid, delivers somebody's assets a second time
                if !self.live.remove(&(true, a.sender.clone(), *id)) && !self.tainted {
                    f.push(Finding::new("C03.paid_twice", kind, format!("listing {id} paid out to {} although no such unpaid record exists in the history", a.sender)));
                }
            }
            Act::RemoveBucket { id } => {
                if !self.live.remove(&(false, a.sender.clone(), *id)) && !self.tainted {
                    f.push(Finding::new("C03.paid_twice", kind, format!("bucket {id} paid out to {} although no such unpaid record exists in the history", a.sender)));
                }
            }
            Act::FeeCycle => {
                self.ghost.last_switch_s = pre.time_ns / 1_000_000_000;
                self.ghost.last_switch_ns = pre.time_ns;
                self.last_fee_switch_step = Some(self.step_no);
            }
            Act::Register { .. } | Act::Update { .. } | Act::Remove { .. } => {
                for l in &post.listings {
                    if l.status == St::Finalized {
                        self.reg_changed_since.insert(l.id, true);
                    }
                }
            }
            _ => {}
        }
    }

    fn note_reach_pre(&mut self, pre: &Obs, a: &Action, exp: &Expect, ok: bool, names: &Names, msg_fault_fired: bool) {
        let kind = a.act.kind();
        let _ = names;
        for n in &exp.notes {
            if ok {
                self.hit(n);
            }
        }
        if msg_fault_fired {
            self.hit("fault_fired_msg");
        }
        match (&a.act, ok) {
            (Act::Buy { lid, bid }, true) => {
                self.hit("buy_ok");
                if let Some(eff) = &exp.effect {
                    if eff.fee_new.0.is_some() {
                        self.hit("buy_fee_listing_side");
                    }
                    if eff.fee_new.1.is_some() {
                        self.hit("buy_fee_bucket_side");
                    }
                    if eff.fee_new.0.is_some() && eff.fee_new.1.is_some() {
                        self.hit("buy_fee_both_sides");
                    }
                    if eff.fee_new.0.is_some() || eff.fee_new.1.is_some() {
                        if pre.fee_usdc {
                            self.hit("fee_in_usdc");
                        } else {
                            self.hit("fee_in_juno");
                        }
                    }
                    if !eff.gains.is_empty() {
                        self.hit("buy_royalty_paid");
                    }
                }
                if let (Some(l), Some(b)) = (pre.listing_by_id(*lid), pre.bucket_at(&a.sender, *bid)) {
                    if b.fee.is_some() {
                        self.hit("proceeds_bucket_reused_with_pending_fee");
                        if b.fee.as_ref().map(|x| x.0.as_str()) != Some(pre.fee_denom()) {
                            self.hit("carried_fee_in_other_denom_at_purchase");
                        }
                    }
                    if self.proceeds.contains(bid) {
                        self.hit("proceeds_bucket_reused");
                    }
                    if l.key_owner == a.sender {
                        self.hit("self_purchase");
                    }
                    if l.wl.is_some() {
                        self.hit("whitelisted_purchase");
                    }
                    if let Some(e) = l.expiration {
                        if e > pre.time_ns && e - pre.time_ns < 1_000_000_000 {
                            self.hit("buy_within_last_second");
                        }
                        if e - pre.time_ns.min(e) == 1 {
                            self.hit("buy_at_exp_minus_1ns");
                        }
                    }
                    let ss: u64 = spec::side_royalties(&l.goods, &pre.registry).iter().map(|(_, e)| e.bps).sum();
                    let bs: u64 = spec::side_royalties(&b.funds, &pre.registry).iter().map(|(_, e)| e.bps).sum();
                    if ss == 5000 || bs == 5000 {
                        self.hit("buy_at_exactly_5000bps");
                    }
                    if ss > 0 && bs > 0 {
                        self.hit("royalty_both_sides");
                    }
                    if self.reg_changed_since.get(lid).copied().unwrap_or(false) && (ss > 0 || bs > 0) {
                        self.hit("rate_changed_between_finalize_and_buy");
                    }
                    let multi = |x: &crate::obs::Assets| {
                        let mut c: BTreeMap<&String, u32> = BTreeMap::new();
                        for (k, _) in &x.nfts {
                            *c.entry(k).or_insert(0) += 1;
                        }
                        c.iter().any(|(k, n)| *n > 1 && pre.registry.contains_key(*k))
                    };
                    if multi(&l.goods) || multi(&b.funds) {
                        self.hit("two_nfts_of_one_registered_collection");
                    }
                }
            }
            (Act::Buy { lid, bid }, false) => {
                if let Verdict::Fail(rs) = &exp.verdict {
                    for r in rs {
                        match r {
                            spec::Reason::BuyMismatch => self.hit("buy_refused_mismatch"),
                            spec::Reason::BuyExpired => self.hit("buy_refused_expired"),
                            spec::Reason::BuySold => self.hit("buy_refused_sold"),
                            spec::Reason::BuyWhitelist => self.hit("buy_refused_whitelist"),
                            spec::Reason::BuyNotFinalized => self.hit("buy_refused_not_finalized"),
                            spec::Reason::BuyBucketNotOwned => self.hit("buy_refused_bucket_not_owned"),
                            spec::Reason::BuyRoyaltyCap => self.hit("buy_refused_royalty_cap"),
                            spec::Reason::BuyNoListing => self.hit("buy_refused_no_listing"),
                            _ => {}
                        }
                    }
                    if rs.contains(&spec::Reason::BuySold) && rs.len() == 1 {
                        if let (Some(l), Some(b)) = (pre.listing_by_id(*lid), pre.bucket_at(&a.sender, *bid)) {
                            if b.funds == l.ask {
                                self.hit("race_loser_with_matching_bucket");
                            }
                        }
                    }
                    if rs.contains(&spec::Reason::BuyExpired) {
                        if let Some(l) = pre.listing_by_id(*lid) {
                            if let Some(e) = l.expiration {
                                if pre.time_ns - e == 1 {
                                    self.hit("buy_at_exp_plus_1ns");
                                }
                                if pre.time_ns - e < 1_000_000_000 {
                                    self.hit("buy_refused_same_second_as_exp");
                                }
                            }
                        }
                    }
                }
            }
            (Act::Withdraw { id }, true) => {
                self.hit("withdraw_ok");
                if pre.listing_by_id(*id).map_or(false, |l| l.fee.is_some()) {
                    self.hit("withdraw_with_fee");
                }
            }
            (Act::RemoveBucket { id }, true) => {
                self.hit("remove_bucket_ok");
                if pre.bucket_at(&a.sender, *id).map_or(false, |b| b.fee.is_some()) {
                    self.hit("remove_bucket_with_fee");
                    if let Some(b) = pre.bucket_at(&a.sender, *id) {
                        if b.fee.as_ref().map(|f| f.0.as_str()) != Some(pre.fee_denom()) {
                            self.hit("fee_paid_after_denom_switch");
                        }
                    }
                }
            }
            (Act::DeleteListing { id }, ok) => {
                if let Some(l) = pre.listing_at(&a.sender, *id) {
                    if let Some(e) = l.expiration {
                        if ok {
                            self.hit("delete_expired_ok");
                        }
                        if e > pre.time_ns && e - pre.time_ns == 1 {
                            self.hit("delete_at_exp_minus_1ns");
                        }
                        if pre.time_ns > e && pre.time_ns - e == 1 {
                            self.hit("delete_at_exp_plus_1ns");
                        }
                    } else if ok {
                        self.hit("delete_preparing_ok");
                    }
                }
            }
            (Act::Finalize { secs, .. }, _) => match secs {
                599 => self.hit("finalize_599"),
                600 => self.hit("finalize_600"),
                1209600 => self.hit("finalize_1209600"),
                1209601 => self.hit("finalize_1209601"),
                _ => {}
            },
            (Act::FeeCycle, ok) => {
                let e = (pre.time_ns / 1_000_000_000).saturating_sub(self.ghost.last_switch_s);
                if e == spec::WEEK - 1 {
                    self.hit("cycle_week_minus_1s");
                }
                if e == spec::WEEK {
                    self.hit("cycle_at_week");
                    if pre.time_ns.saturating_sub(self.ghost.last_switch_ns) < spec::WEEK * 1_000_000_000 {
                        self.hit("cycle_in_week_second_but_less_than_a_week");
                    }
                }
                if e == spec::WEEK + 1 {
                    self.hit("cycle_week_plus_1s");
                }
                if ok {
                    self.hit("cycle_ok");
                    if pre.listings.iter().any(|l| l.fee.is_some()) || pre.buckets.iter().any(|b| b.fee.is_some()) {
                        self.hit("cycle_with_pending_fee");
                    }
                } else if e == 0 && self.last_fee_switch_step.is_some() {
                    self.hit("second_cycle_same_second");
                }
            }
            _ => {}
        }
        if ok && a.act.is_deposit() {
            let p = a.act.dep().map(|d| d.path()).unwrap_or("");
            let name: &'static str = match (kind, p) {
                ("create_listing", "native") => "create_listing_native",
                ("create_listing", "cw20") => "create_listing_cw20",
                ("create_listing", "cw721") => "create_listing_cw721",
                ("add_to_listing", "native") => "add_to_listing_native",
                ("add_to_listing", "cw20") => "add_to_listing_cw20",
                ("add_to_listing", "cw721") => "add_to_listing_cw721",
                ("create_bucket", "native") => "create_bucket_native",
                ("create_bucket", "cw20") => "create_bucket_cw20",
                ("create_bucket", "cw721") => "create_bucket_cw721",
                ("add_to_bucket", "native") => "add_to_bucket_native",
                ("add_to_bucket", "cw20") => "add_to_bucket_cw20",
                ("add_to_bucket", "cw721") => "add_to_bucket_cw721",
                _ => "deposit_other",
            };
            self.hit(name);
        }
        if !ok {
            if let Verdict::Fail(rs) = &exp.verdict {
                for r in rs {
                    let n: &'static str = match r {
                        spec::Reason::CoinsAttached => "refused_coins_attached",
                        spec::Reason::IllegalId => "refused_illegal_id",
                        spec::Reason::IdReused => "refused_id_reused",
                        spec::Reason::BadDeposit => "refused_bad_deposit",
                        spec::Reason::BadAsk => "refused_bad_ask",
                        spec::Reason::NotOwner => "refused_not_owner",
                        spec::Reason::NotPreparing => "refused_not_preparing",
                        spec::Reason::Over25 => "refused_over_25",
                        spec::Reason::DupNft => "refused_dup_nft",
                        spec::Reason::FinalizeBounds => "refused_finalize_bounds",
                        spec::Reason::EarlyDelete => "refused_early_delete",
                        spec::Reason::SoldDelete => "refused_sold_delete",
                        spec::Reason::WithdrawNotEntitled => "refused_withdraw_not_entitled",
                        spec::Reason::EarlyCycle => "refused_early_cycle",
                        spec::Reason::RegCooldown => "refused_reg_cooldown",
                        spec::Reason::RegNotAdmin => "refused_reg_not_admin",
                        spec::Reason::RegBps => "refused_reg_bps",
                        spec::Reason::RegExists => "refused_reg_exists",
                        spec::Reason::RegMissing => "refused_reg_missing",
                        spec::Reason::RegNotContract => "refused_reg_not_contract",
                        _ => "refused_other",
                    };
                    self.hit(n);
                }
            }
        }
        if ok && a.act.is_registry() {
            match &a.act {
                Act::Register { .. } => self.hit("register_ok"),
                Act::Update { payout, bps, .. } => {
                    self.hit("update_ok");
                    if payout.is_none() != bps.is_none() {
                        self.hit("partial_update_ok");
                    }
                }
                Act::Remove { .. } => self.hit("remove_ok"),
                _ => {}
            }
        }
    }

    // -------------------------------------------------------------------------- invariants

    fn invariants(&mut self, post: &Obs, names: &Names, f: &mut Vec<Finding>) {
        // ---- C01: holdings == obligations
        let mut promised: BTreeMap<Fung, u128> = BTreeMap::new();
        let mut nft_count: BTreeMap<crate::obs::NftId, u32> = BTreeMap::new();
        let mut pending: BTreeMap<String, u128> = BTreeMap::new();
        let sloppy: BTreeSet<&String> =
            names.colls.iter().enumerate().filter(|(i, _)| names.sloppy[*i]).map(|(_, c)| c).collect();
        let mut add = |a: &crate::obs::Assets, raw_nfts: &Vec<marketplace::state::Nft>| {
            for (k, v) in &a.fung {
                let e = promised.entry(k.clone()).or_insert(0);
                *e = e.saturating_add(*v);
            }
            for n in raw_nfts {
                *nft_count.entry((n.contract_address.to_string(), n.token_id.clone())).or_insert(0) += 1;
            }
        };
        for l in &post.listings {
            add(&l.goods, &l.raw.for_sale.nfts);
            if let Some((d, a)) = &l.fee {
                *pending.entry(d.clone()).or_insert(0) += *a;
            }
        }
        for b in &post.buckets {
            add(&b.funds, &b.raw.funds.nfts);
            if let Some((d, a)) = &b.fee {
                *pending.entry(d.clone()).or_insert(0) += *a;
            }
        }
        for (d, a) in &pending {
            let e = promised.entry(Fung::Native(d.clone())).or_insert(0);
            *e = e.saturating_add(*a);
        }
        let mut assets: BTreeSet<Fung> = promised.keys().cloned().collect();
        for ((who, d), _) in &post.bank {
            if *who == names.market {
                assets.insert(Fung::Native(d.clone()));
            }
        }
        for ((t, who), _) in &post.cw20 {
            if *who == names.market {
                assets.insert(Fung::Cw20(t.clone()));
            }
        }
        for a in &assets {
            if let Fung::Cw20(t) = a {
                if names.is_sloppy20(t) {
                    continue;
                }
            }
            let held = post.bal(&names.market, a);
            let owed = promised.get(a).copied().unwrap_or(0);
            if held != owed {
                let sig = match a {
                    Fung::Native(_) => "native",
                    Fung::Cw20(_) => "cw20",
                };
                f.push(Finding::new(
                    "C01.fungible_backing",
                    sig,
                    format!("{}: market holds {} but records + pending fees promise {}", a.label(), held, owed),
                ));
            }
        }
        for (n, c) in &nft_count {
            if sloppy.contains(&n.0) {
                continue;
            }
            if *c > 1 {
                f.push(Finding::new("C01.nft_bijection", "twice", format!("NFT {}#{} recorded {} times", n.0, n.1, c)));
            }
            if post.owner_of(n).map(|o| o.as_str()) != Some(names.market.as_str()) {
                f.push(Finding::new(
                    "C01.nft_bijection",
                    "not_held",
                    format!("NFT {}#{} is recorded but owned by {:?}", n.0, n.1, post.owner_of(n)),
                ));
            }
        }
        for (n, o) in &post.nft_owner {
            if *o == names.market && !nft_count.contains_key(n) {
                f.push(Finding::new(
                    "C01.nft_bijection",
                    "unrecorded",
                    format!("NFT {}#{} is owned by the market but in no record", n.0, n.1),
                ));
            }
        }

        // ---- C04: nobody holds the key to the registry the market consults: a chain-level admin of the
        // registry could replace its code and divert up to half of every trade out of records it does not own
        if self.step_no <= 1 || self.step_no % 64 == 0 {
            if let Some(Some(adm)) = post.admins.get(&names.registry) {
                f.push(Finding::new(
                    "C04.registry_admin",
                    "registry",
                    format!("the royalty registry consulted by the market was instantiated with chain-level admin {adm}, who can migrate it"),
                ));
            }
        }

        // ---- C12: well-formedness of every record
        for l in &post.listings {
            let mut bad: Vec<String> = vec![];
            if l.goods_shape.items == 0 {
                bad.push("no goods".into());
            }
            if l.goods_shape.has_zero {
                bad.push("zero amount in goods".into());
            }
            if l.goods_shape.has_dup {
                bad.push("duplicate asset in goods".into());
            }
            if l.ask_shape.items == 0 || l.ask_shape.items > spec::MAX_ASSETS {
                bad.push(format!("ask has {} items", l.ask_shape.items));
            }
            if l.ask_shape.has_zero {
                bad.push("zero amount in ask".into());
            }
            if l.ask_shape.has_dup {
                bad.push("duplicate asset in ask".into());
            }
            if l.key_owner != l.creator || l.key_id != l.id {
                bad.push(format!("filed under ({}, {}) but says ({}, {})", l.key_owner, l.key_id, l.creator, l.id));
            }
            match l.status {
                St::Preparing => {
                    if l.finalized.is_some() || l.expiration.is_some() || l.claimant.is_some() || l.fee.is_some() {
                        bad.push("preparing listing with times / buyer / fee".into());
                    }
                }
                St::Finalized => {
                    match (l.finalized, l.expiration) {
                        (Some(a), Some(b)) => {
                            let d = b.saturating_sub(a);
                            if b < a || d < 600 * 1_000_000_000 || d > 1_209_600 * 1_000_000_000 {
                                bad.push(format!("lifetime {} ns out of bounds", d));
                            }
                        }
                        _ => bad.push("finalized listing without times".into()),
                    }
                    if l.claimant.is_some() || l.fee.is_some() {
                        bad.push("unsold listing with buyer / fee".into());
                    }
                }
                St::Sold => {
                    if l.claimant.as_deref() != Some(l.key_owner.as_str()) {
                        bad.push(format!("sold listing filed under {} but buyer is {:?}", l.key_owner, l.claimant));
                    }
                    if l.finalized.is_none() || l.expiration.is_none() {
                        bad.push("sold listing without times".into());
                    }
                }
            }
            if let Some((d, a)) = &l.fee {
                if *a == 0 || (d != "ujunox" && d != "uusdcx") {
                    bad.push(format!("pending fee {a}{d}"));
                }
            }
            if !l.status_consistent {
                bad.push(format!("status field {:?} contradicts recorded buyer {:?}", l.raw.status, l.claimant));
            }
            for b in bad {
                f.push(Finding::new("C12.record_malformed", "listing", format!("listing {}: {}", l.id, b)));
            }
        }
        for b in &post.buckets {
            let mut bad: Vec<String> = vec![];
            if b.shape.items == 0 {
                bad.push("no funds".into());
            }
            if b.shape.has_zero {
                bad.push("zero amount".into());
            }
            if b.shape.has_dup {
                bad.push("duplicate asset".into());
            }
            if b.key_owner != b.owner {
                bad.push(format!("filed under {} but owner is {}", b.key_owner, b.owner));
            }
            if let Some((d, a)) = &b.fee {
                if *a == 0 || (d != "ujunox" && d != "uusdcx") {
                    bad.push(format!("pending fee {a}{d}"));
                }
            }
            for x in bad {
                f.push(Finding::new("C12.record_malformed", "bucket", format!("bucket {}: {}", b.key_id, x)));
            }
        }

        // ---- C09: live ids unique
        let mut seen = BTreeSet::new();
        for l in &post.listings {
            if !seen.insert(l.id) {
                f.push(Finding::new("C09.duplicate_live_id", "listing", format!("two live listings with id {}", l.id)));
            }
        }
        let mut seen = BTreeSet::new();
        for b in &post.buckets {
            if !seen.insert(b.key_id) {
                f.push(Finding::new("C09.duplicate_live_id", "bucket", format!("two live buckets with id {}", b.key_id)));
            }
        }

        // ---- C10(b): fee conservation over the whole history
        if !self.tainted {
            let mut denoms: BTreeSet<String> = self.charged.keys().cloned().collect();
            denoms.extend(pending.keys().cloned());
            denoms.extend(post.pool.keys().cloned());
            for d in denoms {
                let c = self.charged.get(&d).copied().unwrap_or(0);
                let p = post.pool_of(&d);
                let q = pending.get(&d).copied().unwrap_or(0);
                if c != p + q {
                    f.push(Finding::new(
                        "C10.fee_conservation",
                        "history",
                        format!("{d}: charged {c} so far, community pool {p} + pending on records {q}"),
                    ));
                }
            }
        }
    }

    fn trace_monitor(&mut self, pre: &Obs, post: &Obs, f: &mut Vec<Finding>) {
        let now = post.time_ns;
        let live: BTreeMap<u64, &LRec> = post.listings.iter().map(|l| (l.id, l)).collect();
        // ids that disappeared
        let ids: Vec<u64> = self.traces.keys().cloned().collect();
        for id in ids {
            let t = self.traces.get_mut(&id).unwrap();
            if t.stage == 3 {
                if live.contains_key(&id) {
                    f.push(Finding::new("C08.status_regressed", "reappeared", format!("listing {id} exists again after it was gone")));
                    t.stage = stage_of(live[&id].status);
                }
                continue;
            }
            match live.get(&id) {
                None => {
                    if t.stage == 1 {
                        // finalized → gone is only legal once expired
                        let exp = t.snap.as_ref().and_then(|s| s.3).unwrap_or(0);
                        if now < exp {
                            f.push(Finding::new(
                                "C08.early_delete",
                                "trace",
                                format!("finalized listing {id} disappeared at {now} before its expiration {exp}"),
                            ));
                        }
                    }
                    t.stage = 3;
                }
                Some(l) => {
                    let s = stage_of(l.status);
                    if s < t.stage {
                        f.push(Finding::new(
                            "C08.status_regressed",
                            "backwards",
                            format!("listing {id} went from stage {} back to {}", t.stage, s),
                        ));
                    }
                    if t.stage == 0 && s == 2 {
                        f.push(Finding::new("C08.status_regressed", "skipped", format!("listing {id} sold without being finalized")));
                    }
                    if t.stage >= 1 {
                        if let Some((goods, ask, wl, exp, fin)) = &t.snap {
                            let same_terms = *ask == l.ask && *wl == l.wl && *exp == l.expiration && *fin == l.finalized;
                            if !same_terms {
                                f.push(Finding::new(
                                    "C08.mutated",
                                    "terms",
                                    format!("listing {id}: ask / whitelist / times changed after finalization"),
                                ));
                            }
                            if t.stage == s && *goods != l.goods {
                                f.push(Finding::new(
                                    "C08.mutated",
                                    "goods",
                                    format!("listing {id}: goods changed from {} to {} while {:?}", goods.describe(), l.goods.describe(), l.status),
                                ));
                            }
                        }
                    }
                    t.stage = s;
                    if s >= 1 {
                        t.snap = Some((l.goods.clone(), l.ask.clone(), l.wl.clone(), l.expiration, l.finalized));
                    }
                }
            }
        }
        for (id, l) in &live {
            if !self.traces.contains_key(id) {
                let s = stage_of(l.status);
                let snap =
                    if s >= 1 { Some((l.goods.clone(), l.ask.clone(), l.wl.clone(), l.expiration, l.finalized)) } else { None };
                if s != 0 && pre.listing_by_id(*id).is_none() {
                    f.push(Finding::new("C08.status_regressed", "born_late", format!("listing {id} first seen in stage {s}")));
                }
                self.traces.insert(*id, TraceEntry { stage: s, snap });
            }
        }
    }
}

/// which rules a refusal of a message that had to succeed violates
fn refusal_rules(a: &Action, pre: &Obs, _names: &Names) -> Vec<&'static str> {
    match &a.act {
        Act::CreateListing { .. } | Act::AddToListing { .. } | Act::CreateBucket { .. } | Act::AddToBucket { .. } => {
            vec!["C12.good_input_refused"]
        }
        Act::ChangeAsk { .. } => vec!["C12.good_input_refused"],
        Act::Finalize { .. } => vec!["C08.finalize_bounds"],
        Act::DeleteListing { .. } => vec!["C07.drain_refused"],
        // the entitlement a purchase created can be claimed (exactly once): a refused claim is claimable zero times
        Act::RemoveBucket { .. } | Act::Withdraw { .. } => vec!["C07.drain_refused", "C03.claim_refused"],
        Act::Buy { lid, bid } => {
            let mut v = vec!["C02.unexpected_refusal"];
            if let (Some(l), Some(b)) = (pre.listing_by_id(*lid), pre.bucket_at(&a.sender, *bid)) {
                let ss: u64 = spec::side_royalties(&l.goods, &pre.registry).iter().map(|(_, e)| e.bps).sum();
                let bs: u64 = spec::side_royalties(&b.funds, &pre.registry).iter().map(|(_, e)| e.bps).sum();
                if ss == 5000 || bs == 5000 {
                    v.push("C11.half_refused");
                }
            }
            v
        }
        Act::FeeCycle => vec!["C13.late_cycle_refused"],
        Act::Register { .. } | Act::Update { .. } | Act::Remove { .. } => vec!["C14.unexpected_refusal"],
        _ => vec![],
    }
}

fn effect_rule(a: &Action) -> &'static str {
    match &a.act {
        Act::CreateListing { .. } | Act::AddToListing { .. } | Act::CreateBucket { .. } | Act::AddToBucket { .. } => {
            "C05.deposit_delta"
        }
        Act::DeleteListing { .. } | Act::RemoveBucket { .. } | Act::Withdraw { .. } => "C05.payout_delta",
        Act::ChangeAsk { .. } | Act::Finalize { .. } => "C08.edit_effect",
        Act::Buy { .. } => "C06.record_after_trade",
        Act::FeeCycle => "C13.silent_change",
        Act::Register { .. } | Act::Update { .. } | Act::Remove { .. } => "C14.entry_mismatch",
        _ => "C04.frame",
    }
}

fn compare_records(pre: &Obs, post: &Obs, eff: &Effect, a: &Action, f: &mut Vec<Finding>) {
    let kind = a.act.kind();
    let rule = effect_rule(a);
    // listings
    let mut keys: BTreeSet<(String, u64)> = BTreeSet::new();
    for l in pre.listings.iter().chain(post.listings.iter()) {
        keys.insert((l.key_owner.clone(), l.key_id));
    }
    for k in eff.listings.keys() {
        keys.insert(k.clone());
    }
    for k in &keys {
        let before = pre.listing_at(&k.0, k.1);
        let after = post.listing_at(&k.0, k.1);
        match eff.listings.get(k) {
            Some(Some(want)) => match after {
                None => {
                    let r = if matches!(a.act, Act::Buy { .. }) { "C03.half_swap" } else { rule };
                    f.push(Finding::new(r, kind, format!("{kind}: listing {} expected under {} but absent", k.1, k.0)));
                }
                Some(l) => {
                    if !want.matches(l) {
                        let structural = want.creator != l.creator
                            || want.status != l.status
                            || want.claimant != l.claimant
                            || want.id != l.id;
                        let r = if matches!(a.act, Act::Buy { .. }) {
                            if structural {
                                "C03.half_swap"
                            } else if want.goods != l.goods {
                                "C06.record_after_trade"
                            } else {
                                "C08.mutated"
                            }
                        } else {
                            rule
                        };
                        // fees and royalties never touch NFTs: the buyer must be entitled to exactly the listing's NFTs
                        if matches!(a.act, Act::Buy { .. }) && want.goods.nfts != l.goods.nfts {
                            f.push(Finding::new(
                                "C03.half_swap",
                                kind,
                                format!("{kind}: the sold listing {} holds NFTs {:?}, the listing's own were {:?}", k.1, l.goods.nfts, want.goods.nfts),
                            ));
                        }
                        f.push(Finding::new(
                            r,
                            kind,
                            format!(
                                "{kind}: listing {} is {{{:?} goods {} ask {} wl {:?} exp {:?} buyer {:?} fee {:?}}}, expected {{{:?} goods {} ask {} wl {:?} exp {:?} buyer {:?} fee {:?}}}",
                                k.1, l.status, l.goods.describe(), l.ask.describe(), l.wl, l.expiration, l.claimant, l.fee,
                                want.status, want.goods.describe(), want.ask.describe(), want.wl, want.expiration, want.claimant, want.fee
                            ),
                        ));
                    }
                }
            },
            Some(None) => {
                // may legitimately be re-created under the same key by the same effect (self-purchase)
                if after.is_some() {
                    let r = if matches!(a.act, Act::Buy { .. }) { "C03.half_swap" } else { rule };
                    f.push(Finding::new(r, kind, format!("{kind}: listing {} still filed under {}", k.1, k.0)));
                }
            }
            None => {
                let same = match (before, after) {
                    (None, None) => true,
                    (Some(x), Some(y)) => x.raw == y.raw,
                    _ => false,
                };
                if !same {
                    f.push(Finding::new(
                        "C04.frame",
                        kind,
                        format!("{kind} by {}: listing {} of {} changed although it is not the target", a.sender, k.1, k.0),
                    ));
                    if a.act.is_deposit() || a.act.is_payout() {
                        f.push(Finding::new("C05.collateral_record_change", kind, format!("{kind}: listing {} of {} changed although the message names another record", k.1, k.0)));
                    }
                    if matches!(a.act, Act::FeeCycle) {
                        f.push(Finding::new("C13.silent_change", kind, format!("fee cycle changed listing {}", k.1)));
                    }
                }
            }
        }
    }
    // buckets
    let mut keys: BTreeSet<(String, u64)> = BTreeSet::new();
    for b in pre.buckets.iter().chain(post.buckets.iter()) {
        keys.insert((b.key_owner.clone(), b.key_id));
    }
    for k in eff.buckets.keys() {
        keys.insert(k.clone());
    }
    for k in &keys {
        let before = pre.bucket_at(&k.0, k.1);
        let after = post.bucket_at(&k.0, k.1);
        match eff.buckets.get(k) {
            Some(Some(want)) => match after {
                None => {
                    let r = if matches!(a.act, Act::Buy { .. }) { "C03.half_swap" } else { rule };
                    f.push(Finding::new(r, kind, format!("{kind}: bucket {} expected under {} but absent", k.1, k.0)));
                }
                Some(b) => {
                    if !want.matches(b) {
                        let r = if matches!(a.act, Act::Buy { .. }) {
                            if want.owner != b.owner {
                                "C03.half_swap"
                            } else {
                                "C06.record_after_trade"
                            }
                        } else {
                            rule
                        };
                        if matches!(a.act, Act::Buy { .. }) && want.funds.nfts != b.funds.nfts {
                            f.push(Finding::new(
                                "C03.half_swap",
                                kind,
                                format!("{kind}: the bucket {} handed to the seller holds NFTs {:?}, the bucket's own were {:?}", k.1, b.funds.nfts, want.funds.nfts),
                            ));
                        }
                        f.push(Finding::new(
                            r,
                            kind,
                            format!(
                                "{kind}: bucket {} is {{owner {} funds {} fee {:?}}}, expected {{owner {} funds {} fee {:?}}}",
                                k.1, b.owner, b.funds.describe(), b.fee, want.owner, want.funds.describe(), want.fee
                            ),
                        ));
                    }
                }
            },
            Some(None) => {
                if after.is_some() {
                    let r = if matches!(a.act, Act::Buy { .. }) { "C03.half_swap" } else { rule };
                    f.push(Finding::new(r, kind, format!("{kind}: bucket {} still filed under {}", k.1, k.0)));
                }
            }
            None => {
                let same = match (before, after) {
                    (None, None) => true,
                    (Some(x), Some(y)) => x.raw == y.raw,
                    _ => false,
                };
                if !same {
                    f.push(Finding::new(
                        "C04.frame",
                        kind,
                        format!("{kind} by {}: bucket {} of {} changed although it is not the target", a.sender, k.1, k.0),
                    ));
                    if a.act.is_deposit() || a.act.is_payout() {
                        f.push(Finding::new("C05.collateral_record_change", kind, format!("{kind}: bucket {} of {} changed although the message names another record", k.1, k.0)));
                    }
                    if matches!(a.act, Act::FeeCycle) {
                        f.push(Finding::new("C13.silent_change", kind, format!("fee cycle changed bucket {}", k.1)));
                    }
                }
            }
        }
    }
}

fn compare_misc(pre: &Obs, post: &Obs, eff: &Effect, a: &Action, names: &Names, f: &mut Vec<Finding>) {
    let kind = a.act.kind();
    // pool
    let mut denoms: BTreeSet<&String> = pre.pool.keys().chain(post.pool.keys()).collect();
    for d in eff.pool.keys() {
        denoms.insert(d);
    }
    if let Some(eq) = &eff.fee_eq {
        let Act::Buy { lid, bid } = &a.act else { unreachable!() };
        let mut all: BTreeSet<String> = denoms.iter().map(|d| d.to_string()).collect();
        all.extend(eq.keys().cloned());
        let l_after = post.listing_by_id(*lid).and_then(|l| l.fee.clone());
        // the bucket is looked up under the key the swap prescribes (ids may be ambiguous if C09 is broken)
        let seller = pre.listing_by_id(*lid).map(|l| l.key_owner.clone()).unwrap_or_default();
        let b_after = post.bucket_at(&seller, *bid).and_then(|b| b.fee.clone());
        for x in [&l_after, &b_after].into_iter().flatten() {
            all.insert(x.0.clone());
        }
        let mut short_old: Option<(String, String)> = None;
        let mut excess = false;
        for d in all {
            let owed = eq.get(&d).copied().unwrap_or(0);
            let mut newly = 0u128;
            for x in [&eff.fee_new.0, &eff.fee_new.1].into_iter().flatten() {
                if x.0 == d {
                    newly += x.1;
                }
            }
            let dp = post.pool_of(&d).saturating_sub(pre.pool_of(&d));
            let mut pend = 0u128;
            for x in [&l_after, &b_after].into_iter().flatten() {
                if x.0 == d {
                    pend += x.1;
                }
            }
            let m = format!(
                "{kind}: {d}: this trade charges {newly} and the bucket carried {} from an earlier sale, but pending afterwards {pend} + paid to pool now {dp}",
                owed - newly
            );
            // C10: nothing lost, nothing duplicated (carried fee included)
            if pend + dp != owed || post.pool_of(&d) < pre.pool_of(&d) {
                f.push(Finding::new("C10.fee_conservation", "buy", m.clone()));
                if pend + dp < owed && d != pre.fee_denom() {
                    short_old = Some((d.clone(), m.clone()));
                }
                if pend + dp > owed {
                    excess = true;
                }
            }
            // C06: the fee of THIS trade is accounted for in full and nothing beyond what is owed is taken
            if pend + dp < newly || pend + dp > owed {
                f.push(Finding::new("C06.fee_recorded", "buy", m));
            }
        }
        // C13: a fee recorded before a switch keeps its denomination — it must not reappear in the new one
        if let (Some((d, m)), true) = (&short_old, excess) {
            f.push(Finding::new(
                "C13.recorded_fee_changed",
                "buy",
                format!("{m} — the fee recorded in {d} before the switch shrank while another denomination got more than it is owed"),
            ));
        }
        // each side's pending fee must not exceed what that side owes, and must be in a denomination it owes
        let lwant = eff.fee_new.0.clone();
        if let Some(x) = &l_after {
            if lwant.as_ref().map_or(true, |w| w.0 != x.0 || x.1 > w.1) {
                f.push(Finding::new(
                    "C06.fee_recorded",
                    "buy",
                    format!("{kind}: listing side records fee {:?} but owes {:?}", x, lwant),
                ));
                if lwant.as_ref().map_or(true, |w| w.0 != x.0) {
                    f.push(Finding::new("C13.wrong_denom_charged", "buy", format!("listing side charged in {} while {} is in force", x.0, pre.fee_denom())));
                    f.push(Finding::new("C16.fee_denom", "purchase", format!("the fee query announced {} but the purchase was charged in {}", pre.fee_denom(), x.0)));
                }
            }
        }
        if let Some(x) = &b_after {
            let before = pre.bucket_at(&a.sender, *bid).and_then(|b| b.fee.clone());
            let new = eff.fee_new.1.clone();
            let mut allowed: BTreeMap<String, u128> = BTreeMap::new();
            for y in [&before, &new].into_iter().flatten() {
                *allowed.entry(y.0.clone()).or_insert(0) += y.1;
            }
            if allowed.get(&x.0).map_or(true, |m| x.1 > *m) {
                f.push(Finding::new(
                    "C06.fee_recorded",
                    "buy",
                    format!("{kind}: bucket side records fee {:?} but owes {:?}", x, allowed),
                ));
                if !allowed.contains_key(&x.0) {
                    f.push(Finding::new("C13.wrong_denom_charged", "buy", format!("bucket side charged in {} while {} is in force", x.0, pre.fee_denom())));
                    f.push(Finding::new("C16.fee_denom", "purchase", format!("the fee query announced {} but the purchase was charged in {}", pre.fee_denom(), x.0)));
                }
            }
        }
    } else {
        for d in denoms {
            let want = eff.pool.get(d).copied().unwrap_or(0);
            let before = pre.pool_of(d);
            let after = post.pool_of(d);
            if after < before || after - before != want {
                let m = format!("{kind}: community pool {d} went {before} -> {after}, expected +{want}");
                f.push(Finding::new("C10.fee_conservation", kind, m.clone()));
                if a.act.is_payout() {
                    f.push(Finding::new("C05.payout_delta", kind, m));
                }
            }
        }
    }
    // fee item
    if eff.fee_flip {
        if post.fee_usdc == pre.fee_usdc {
            f.push(Finding::new("C13.not_alternating", kind, "successful fee cycle did not switch the denomination".to_string()));
        }
    } else if post.fee_usdc != pre.fee_usdc {
        f.push(Finding::new(
            "C13.silent_change",
            kind,
            format!("{kind} changed the fee denomination from {} to {}", pre.fee_denom(), post.fee_denom()),
        ));
    }
    // registry
    let mut want = pre.registry.clone();
    if let Some((c, e)) = &eff.registry {
        match e {
            Some(x) => {
                want.insert(c.clone(), x.clone());
            }
            None => {
                want.remove(c);
            }
        }
    }
    if want != post.registry {
        f.push(Finding::new(
            "C14.entry_mismatch",
            kind,
            format!("{kind} by {}: registry is {:?}, expected {:?}", a.sender, post.registry, want),
        ));
    }
    if pre.registry_addr != post.registry_addr {
        f.push(Finding::new("C06.registry_switched", kind, "the registry address consulted by the market changed".to_string()));
    }
    let _ = names;
}

fn compare_wallets(pre: &Obs, post: &Obs, eff: &Effect, a: &Action, names: &Names, f: &mut Vec<Finding>) {
    let kind = a.act.kind();
    let rule = match &a.act {
        Act::CreateListing { .. } | Act::AddToListing { .. } | Act::CreateBucket { .. } | Act::AddToBucket { .. } => {
            "C05.deposit_delta"
        }
        Act::DeleteListing { .. } | Act::RemoveBucket { .. } | Act::Withdraw { .. } => "C05.payout_delta",
        Act::Buy { .. } => "C06.royalty_delta",
        _ => "C05.third_party_delta",
    };
    let mut keys: BTreeSet<(String, Fung)> = BTreeSet::new();
    for ((who, d), _) in pre.bank.iter().chain(post.bank.iter()) {
        keys.insert((who.clone(), Fung::Native(d.clone())));
    }
    for ((t, who), _) in pre.cw20.iter().chain(post.cw20.iter()) {
        keys.insert((who.clone(), Fung::Cw20(t.clone())));
    }
    for k in eff.gains.keys().chain(eff.losses.keys()) {
        keys.insert(k.clone());
    }
    let traders: Vec<String> = match &a.act {
        Act::Buy { lid, .. } => {
            let mut v = vec![a.sender.clone()];
            if let Some(l) = pre.listing_by_id(*lid) {
                v.push(l.key_owner.clone());
            }
            v
        }
        _ => vec![],
    };
    for (who, asset) in keys {
        if who == names.market {
            continue;
        }
        if let Fung::Cw20(t) = &asset {
            if names.is_sloppy20(t) {
                continue;
            }
        }
        let before = pre.bal(&who, &asset);
        let after = post.bal(&who, &asset);
        let g = eff.gains.get(&(who.clone(), asset.clone())).copied().unwrap_or(0);
        let l = eff.losses.get(&(who.clone(), asset.clone())).copied().unwrap_or(0);
        let want = before.checked_add(g).and_then(|x| x.checked_sub(l));
        if want != Some(after) {
            let detail = format!(
                "{kind} by {}: {} of {} went {} -> {}, expected {:?} (+{} -{})",
                a.sender, asset.label(), who, before, after, want, g, l
            );
            let r = if matches!(a.act, Act::Buy { .. }) && traders.contains(&who) && g == 0 { "C06.trader_wallet" } else { rule };
            let r = if (a.act.is_deposit() || a.act.is_payout()) && who != a.sender { "C05.third_party_delta" } else { r };
            f.push(Finding::new(r, kind, detail.clone()));
            if r == "C06.trader_wallet" && after > before {
                // goods handed out at the swap itself: the other party's later claim delivers them a second time
                f.push(Finding::new("C03.delivered_at_swap", kind, detail.clone()));
            }
            if after < before && who != a.sender {
                f.push(Finding::new("C04.wallet_drained", kind, detail.clone()));
            }
            if after < before && who == a.sender && !a.act.is_deposit() && a.act.is_market() {
                f.push(Finding::new("C19.sender_charged", kind, detail.clone()));
            }
            // a record that is gone after its payout although its owner did not receive the recorded asset
            // can never be claimed again: the entitlement was claimable zero times instead of once
            if a.act.is_payout() && who == a.sender && want.map_or(false, |w| after < w) {
                f.push(Finding::new("C03.claim_lost", kind, detail));
            }
        }
    }
    // NFTs
    let mut nfts: BTreeSet<&crate::obs::NftId> = pre.nft_owner.keys().chain(post.nft_owner.keys()).collect();
    for n in eff.nft_to.keys() {
        nfts.insert(n);
    }
    for n in nfts {
        let before = pre.owner_of(n);
        let after = post.owner_of(n);
        let want = eff.nft_to.get(n).or(before);
        if names.colls.iter().position(|c| *c == n.0).map_or(false, |i| names.sloppy[i]) {
            continue;
        }
        if want != after {
            let detail = format!("{kind} by {}: NFT {}#{} owner {:?} -> {:?}, expected {:?}", a.sender, n.0, n.1, before, after, want);
            f.push(Finding::new(rule, kind, detail.clone()));
            if a.act.is_payout() && want.map(|s| s.as_str()) == Some(a.sender.as_str()) {
                f.push(Finding::new("C03.claim_lost", kind, detail.clone()));
            }
            if before.map(|s| s.as_str()) != Some(a.sender.as_str()) && before.map(|s| s.as_str()) != Some(names.market.as_str()) {
                f.push(Finding::new("C04.wallet_drained", kind, detail));
            }
        }
    }
}

/// C11 consequence, judged on observed records only: no purchase takes more than half of any post-fee
/// fungible amount in royalties, and no escrowed amount is reduced to zero
fn check_halves(pre: &Obs, post: &Obs, a: &Action, f: &mut Vec<Finding>) {
    let Act::Buy { lid, bid } = &a.act else { return };
    let (Some(l), Some(b)) = (pre.listing_by_id(*lid), pre.bucket_at(&a.sender, *bid)) else { return };
    let d = pre.fee_denom();
    let g1 = spec::minus_fee(&l.goods, &spec::fee_of(&l.goods, d));
    let f1 = spec::minus_fee(&b.funds, &spec::fee_of(&b.funds, d));
    let la = post.listing_at(&a.sender, *lid);
    let ba = post.bucket_at(&l.key_owner, *bid);
    for (side, before, after) in [("goods", &g1, la.map(|x| &x.goods)), ("bucket", &f1, ba.map(|x| &x.funds))] {
        let Some(after) = after else { continue };
        for (k, v) in &before.fung {
            let now = after.get(k);
            if now == 0 || now.saturating_mul(2) < *v {
                f.push(Finding::new(
                    "C11.amount_halved",
                    side,
                    format!("buy_listing: {} of the {side} went from {v} (post-fee) to {now}: more than half was taken", k.label()),
                ));
            }
        }
    }
}

pub fn compare_effect(pre: &Obs, post: &Obs, eff: &Effect, a: &Action, names: &Names, f: &mut Vec<Finding>) {
    check_halves(pre, post, a, f);
    if let Act::Buy { lid, bid } = &a.act {
        // the swap files the bucket under the seller: a bucket the seller already holds under the
        // same id (possible only after an id was accepted twice) must not be destroyed by it
        if let Some(l) = pre.listing_by_id(*lid) {
            if l.key_owner != a.sender {
                if let Some(old) = pre.bucket_at(&l.key_owner, *bid) {
                    f.push(Finding::new(
                        "C04.foreign_bucket_destroyed",
                        "buy_listing",
                        format!("buy_listing by {}: destroyed bucket {} of {} ({}), which the sender does not own", a.sender, bid, l.key_owner, old.funds.describe()),
                    ));
                    f.push(Finding::new(
                        "C03.bucket_overwritten",
                        "buy_listing",
                        format!(
                            "buy_listing by {}: the seller {} already held a bucket {} ({}) which the swap replaced",
                            a.sender, l.key_owner, bid, old.funds.describe()
                        ),
                    ));
                }
            }
        }
    }
    compare_records(pre, post, eff, a, f);
    compare_wallets(pre, post, eff, a, names, f);
    compare_misc(pre, post, eff, a, names, f);
}

/// Abstract fingerprint of a state: multiset of per-record lifecycle classes + fee denom +
/// registry size bucket.  Used only for coverage accounting.
pub fn state_class(o: &Obs) -> u64 {
    let mut parts: Vec<u32> = vec![];
    for l in &o.listings {
        let expired = l.expiration.map_or(false, |e| o.time_ns > e);
        let shape = (l.goods.fung.len().min(3) as u32) | ((l.goods.nfts.len().min(3) as u32) << 2);
        parts.push(
            1 | ((stage_of(l.status) as u32) << 1) | ((expired as u32) << 3) | ((l.fee.is_some() as u32) << 4) | (shape << 5),
        );
    }
    for b in &o.buckets {
        let shape = (b.funds.fung.len().min(3) as u32) | ((b.funds.nfts.len().min(3) as u32) << 2);
        parts.push(((b.fee.is_some() as u32) << 4) | (shape << 5));
    }
    parts.sort();
    let mut h = crate::prng::fnv1a(&[o.fee_usdc as u8, o.registry.len().min(4) as u8]);
    for p in parts {
        h = crate::prng::fnv_mix(h, &p.to_be_bytes());
    }
    h
}

/// class of the record(s) a message is aimed at, from the pre-state
fn target_class(pre: &Obs, a: &Action) -> u64 {
    let lclass = |l: Option<&LRec>| -> u32 {
        match l {
            None => 0,
            Some(l) => {
                let expired = l.expiration.map_or(false, |e| pre.time_ns > e);
                1 | ((stage_of(l.status) as u32) << 1)
                    | ((expired as u32) << 3)
                    | ((l.fee.is_some() as u32) << 4)
                    | ((l.goods.fung.len().min(3) as u32) << 5)
                    | ((l.goods.nfts.len().min(3) as u32) << 7)
                    | ((l.wl.is_some() as u32) << 9)
                    | (((l.key_owner == a.sender) as u32) << 10)
            }
        }
    };
    let bclass = |b: Option<&crate::obs::BRec>| -> u32 {
        match b {
            None => 0,
            Some(b) => {
                1 | ((b.fee.is_some() as u32) << 4)
                    | ((b.funds.fung.len().min(3) as u32) << 5)
                    | ((b.funds.nfts.len().min(3) as u32) << 7)
                    | (((b.key_owner == a.sender) as u32) << 10)
            }
        }
    };
    let (x, y): (u32, u32) = match &a.act {
        Act::CreateListing { id, .. } => (lclass(pre.listing_by_id(*id)), 0),
        Act::AddToListing { id, .. } | Act::ChangeAsk { id, .. } | Act::Finalize { id, .. } | Act::DeleteListing { id } | Act::Withdraw { id } => {
            (lclass(pre.listing_by_id(*id)), 0)
        }
        Act::CreateBucket { id, .. } => (0, bclass(pre.bucket_by_id(*id))),
        Act::AddToBucket { id, .. } | Act::RemoveBucket { id } => (0, bclass(pre.bucket_at(&a.sender, *id).or(pre.bucket_by_id(*id)))),
        Act::Buy { lid, bid } => {
            let l = pre.listing_by_id(*lid);
            let b = pre.bucket_at(&a.sender, *bid).or(pre.bucket_by_id(*bid));
            let mut extra = 0u32;
            if let (Some(l), Some(b)) = (l, b) {
                let ss: u64 = spec::side_royalties(&l.goods, &pre.registry).iter().map(|(_, e)| e.bps).sum();
                let bs: u64 = spec::side_royalties(&b.funds, &pre.registry).iter().map(|(_, e)| e.bps).sum();
                extra = ((ss > 0) as u32) << 12 | ((bs > 0) as u32) << 13 | ((ss.max(bs) >= 5000) as u32) << 14;
            }
            (lclass(l) | extra, bclass(b))
        }
        Act::Register { coll, .. } | Act::Update { coll, .. } | Act::Remove { coll } => {
            let e = pre.registry.get(coll);
            let cooled = e.map_or(false, |e| pre.height >= e.last_updated + 100);
            ((e.is_some() as u32) | ((cooled as u32) << 1) | ((pre.admins.get(coll).cloned().flatten().as_deref() == Some(a.sender.as_str())) as u32) << 2, 0)
        }
        _ => (0, 0),
    };
    ((x as u64) << 32) | y as u64
}
