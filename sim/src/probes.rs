//! Fork probes: the world is cloned at a reached state and then attacked, drained, queried or
//! re-executed with each outgoing transfer failed in turn.  The main run is never affected.

use std::collections::{BTreeMap, BTreeSet};
use std::sync::atomic::{AtomicBool, Ordering};

use serde_json::{json, Value};

use crate::monitor::{compare_effect, Finding, Monitor};
use crate::msgs::{self, AskSpec};
use crate::obs::{BRec, Fung, LRec, Obs, St};
use crate::ops::{Fund, Op, Sim};
use crate::prng::{fnv1a, fnv_mix, Prng};
use crate::spec::{self, Action, Verdict};
use crate::world::{ADMINS, DEPLOYER};

pub static THOROUGH: AtomicBool = AtomicBool::new(false);

fn thorough() -> bool {
    THOROUGH.load(Ordering::Relaxed)
}

#[derive(Default)]
pub struct ProbeResult {
    pub cases: u64,
    pub findings: Vec<Finding>,
    pub faults: BTreeMap<&'static str, u64>,
    pub reach: BTreeMap<&'static str, u64>,
    pub distinct: BTreeSet<u64>,
}

impl ProbeResult {
    fn hit(&mut self, k: &'static str) {
        *self.reach.entry(k).or_insert(0) += 1;
    }
    fn fault(&mut self, k: &'static str) {
        *self.faults.entry(k).or_insert(0) += 1;
    }
    fn case(&mut self, parts: &[&[u8]]) {
        self.cases += 1;
        let mut h = fnv1a(b"case");
        for p in parts {
            h = fnv_mix(h, p);
            h = fnv_mix(h, &[0xff]);
        }
        self.distinct.insert(h);
    }
}

fn fund(d: &str, a: u128) -> Fund {
    Fund { denom: d.to_string(), amount: a }
}

fn lifecycle(l: &LRec, now: u64) -> &'static str {
    match l.status {
        St::Preparing => "preparing",
        St::Finalized => {
            if l.expiration.map_or(false, |e| now > e) {
                "expired"
            } else {
                "finalized"
            }
        }
        St::Sold => "sold",
    }
}

pub fn run_probe(kind: &str, arg: u64, sim: &Sim, obs: &Obs, mon: &Monitor) -> ProbeResult {
    match kind {
        "buy_triples" => probe_buy_triples(arg, sim, obs, mon),
        "nonowner" => probe_nonowner(arg, sim, obs),
        "drain" => probe_drain(arg, sim, obs),
        "queries" => probe_queries(arg, sim, obs, mon),
        "hostile" => probe_hostile(arg, sim, obs),
        "coins" => probe_coins(arg, sim, obs, mon),
        "registry_lookup" => probe_registry_lookup(arg, sim, obs),
        _ => ProbeResult::default(),
    }
}

// ------------------------------------------------------------------------------------------
// C02: every (caller, listing, bucket) triple
// ------------------------------------------------------------------------------------------

fn probe_buy_triples(arg: u64, sim: &Sim, obs: &Obs, mon: &Monitor) -> ProbeResult {
    let mut r = ProbeResult::default();
    let mut rng = Prng::new(arg);
    let cap = if thorough() { 10 } else { 6 };
    let mut callers: Vec<String> = sim.names.users.clone();
    callers.push(DEPLOYER.to_string());
    let mut lids: Vec<u64> = obs.listings.iter().map(|l| l.id).collect();
    rng.shuffle(&mut lids);
    lids.truncate(cap);
    lids.push(777_777); // a listing that does not exist
    let mut bids: Vec<u64> = obs.buckets.iter().map(|b| b.key_id).collect();
    rng.shuffle(&mut bids);
    bids.truncate(cap);
    if bids.is_empty() {
        return r;
    }
    let mut fork = sim.fork();
    for c in &callers {
        for lid in &lids {
            for bid in &bids {
                // only triples with some chance of being interesting: the caller owns the bucket,
                // or one sampled foreign caller
                let owns = obs.bucket_at(c, *bid).is_some();
                if !owns && !rng.chance(1, 4) {
                    continue;
                }
                let (reasons, at_exp) = spec::buy_reasons(obs, c, *lid, *bid);
                let op = Op::tx(c, &sim.names.market, msgs::buy(*lid, *bid), vec![]);
                let out = fork.apply(&op);
                let tag: Vec<u8> = reasons.iter().map(|x| *x as u8).collect();
                r.case(&[b"buy", &tag, &[out.ok as u8, at_exp as u8]]);
                if !reasons.is_empty() {
                    if out.ok {
                        for reason in &reasons {
                            for rule in reason.rules() {
                                r.findings.push(Finding::new(
                                    rule,
                                    format!("buy_listing:{:?}", reason),
                                    format!("probe: buy({lid},{bid}) by {c} succeeded although {:?}", reasons),
                                ));
                            }
                        }
                    }
                } else if !at_exp {
                    r.hit("triple_probe_valid_purchase");
                    if !out.ok {
                        r.findings.push(Finding::new(
                            "C02.unexpected_refusal",
                            "buy_listing",
                            format!("probe: buy({lid},{bid}) by {c} refused although the terms are met: {}", out.err),
                        ));
                    } else {
                        let a = spec::classify(&op, &sim.names).unwrap();
                        let exp = mon.expect(obs, &a, &sim.names);
                        if let (Verdict::Succeed, Some(eff)) = (&exp.verdict, &exp.effect) {
                            let post = fork.observe();
                            compare_effect(obs, &post, eff, &a, &sim.names, &mut r.findings);
                        }
                    }
                }
                if out.ok {
                    fork = sim.fork();
                }
            }
        }
    }
    r
}

// ------------------------------------------------------------------------------------------
// C04: non-owner × message × record
// ------------------------------------------------------------------------------------------

fn probe_nonowner(arg: u64, sim: &Sim, obs: &Obs) -> ProbeResult {
    let mut r = ProbeResult::default();
    let mut rng = Prng::new(arg);
    let names = &sim.names;
    let m = &names.market;
    let mut accounts: Vec<String> = names.users.clone();
    accounts.push(DEPLOYER.to_string());
    accounts.push(ADMINS[0].to_string());
    // accounts with other roles in the system: a royalty payout address, the NFT minter, a bystander
    accounts.push(crate::world::PAYOUTS[0].to_string());
    accounts.push(crate::world::MINTER.to_string());
    accounts.push(crate::world::BYSTANDER.to_string());
    let cap = if thorough() { 10 } else { 5 };
    let mut ls: Vec<&LRec> = obs.listings.iter().collect();
    rng.shuffle(&mut ls);
    ls.truncate(cap);
    let mut bs: Vec<&BRec> = obs.buckets.iter().collect();
    rng.shuffle(&mut bs);
    bs.truncate(cap);
    let max_exp = obs.listings.iter().filter_map(|l| l.expiration).max();
    let h0 = sim.chain.state_hash();
    let an_ask = AskSpec { native: vec![("ujunox".into(), 1)], ..Default::default() };
    for late in [false, true] {
        if late && max_exp.is_none() {
            continue;
        }
        let mut fork = sim.fork();
        let mut now = obs.time_ns;
        if late {
            let t = max_exp.unwrap() + 1_000_000_000;
            if t > now {
                fork.chain.advance(t - now, 10);
                now = t;
            }
        }
        let hbase = fork.chain.state_hash();
        for x in &accounts {
            let my_nft = obs.nft_owner.iter().find(|(_, o)| *o == x).map(|(n, _)| n.clone());
            let cw20 = names.cw20s[0].clone();
            let has20 = obs.bal(x, &Fung::Cw20(cw20.clone())) >= 3;
            let has_native = obs.bal(x, &Fung::Native("ujunox".into())) >= 3;
            let mut attempts: Vec<(&'static str, &'static str, Op)> = vec![];
            for l in &ls {
                // "does not own the record": also skip ids under which x files a record of its own
                if l.key_owner == *x || obs.listing_at(x, l.id).is_some() {
                    continue;
                }
                let lc = lifecycle(l, now);
                if has_native {
                    attempts.push(("add_to_listing", lc, Op::tx(x, m, msgs::add_to_listing(l.id), vec![fund("ujunox", 3)])));
                }
                if has20 {
                    attempts.push(("add_to_listing_cw20", lc, Op::tx(x, &cw20, msgs::cw20_send(m, 3, &msgs::inner_add_to_listing_cw20(l.id)), vec![])));
                }
                if let Some(n) = &my_nft {
                    attempts.push(("add_to_listing_cw721", lc, Op::tx(x, &n.0, msgs::cw721_send(m, &n.1, &msgs::inner_add_to_listing_cw721(l.id)), vec![])));
                }
                attempts.push(("change_ask", lc, Op::tx(x, m, msgs::change_ask(l.id, &an_ask), vec![])));
                attempts.push(("finalize", lc, Op::tx(x, m, msgs::finalize(l.id, 600), vec![])));
                attempts.push(("delete_listing", lc, Op::tx(x, m, msgs::delete_listing(l.id), vec![])));
                attempts.push(("withdraw_purchased", lc, Op::tx(x, m, msgs::withdraw_purchased(l.id), vec![])));
            }
            for b in &bs {
                if b.key_owner == *x || obs.bucket_at(x, b.key_id).is_some() {
                    continue;
                }
                let lc = if b.fee.is_some() { "proceeds_bucket" } else { "fresh_bucket" };
                if has_native {
                    attempts.push(("add_to_bucket", lc, Op::tx(x, m, msgs::add_to_bucket(b.key_id), vec![fund("ujunox", 3)])));
                }
                if has20 {
                    attempts.push(("add_to_bucket_cw20", lc, Op::tx(x, &cw20, msgs::cw20_send(m, 3, &msgs::inner_add_to_bucket_cw20(b.key_id)), vec![])));
                }
                if let Some(n) = &my_nft {
                    attempts.push(("add_to_bucket_cw721", lc, Op::tx(x, &n.0, msgs::cw721_send(m, &n.1, &msgs::inner_add_to_bucket_cw721(b.key_id)), vec![])));
                }
                attempts.push(("remove_bucket", lc, Op::tx(x, m, msgs::remove_bucket(b.key_id), vec![])));
                // buying with somebody else's bucket: any listing, preferably one whose ask it matches
                let target = obs.listings.iter().find(|l| l.ask == b.funds && l.status == St::Finalized).or(obs.listings.first());
                if let Some(l) = target {
                    attempts.push(("buy_with_foreign_bucket", lc, Op::tx(x, m, msgs::buy(l.id, b.key_id), vec![])));
                }
            }
            for (shape, lc, op) in attempts {
                let out = fork.apply(&op);
                r.case(&[b"nonowner", shape.as_bytes(), lc.as_bytes(), &[late as u8, out.ok as u8]]);
                match lc {
                    "preparing" => r.hit("nonowner_vs_preparing"),
                    "finalized" => r.hit("nonowner_vs_finalized"),
                    "expired" => r.hit("nonowner_vs_expired"),
                    "sold" => r.hit("nonowner_vs_sold"),
                    "fresh_bucket" => r.hit("nonowner_vs_fresh_bucket"),
                    _ => r.hit("nonowner_vs_proceeds_bucket"),
                }
                if out.ok {
                    r.findings.push(Finding::new(
                        "C04.nonowner_success",
                        format!("{shape}:{lc}"),
                        format!("probe: {} succeeded for an account that does not own the record", op.short()),
                    ));
                    fork = sim.fork();
                    if late {
                        let t = max_exp.unwrap() + 1_000_000_000;
                        if t > obs.time_ns {
                            fork.chain.advance(t - obs.time_ns, 10);
                        }
                    }
                } else if fork.chain.state_hash() != hbase {
                    r.findings.push(Finding::new("SIM.atomicity", shape, "failed probe changed state".to_string()));
                }
            }
        }
    }
    let _ = h0;
    r
}

// ------------------------------------------------------------------------------------------
// C07: fork and drain
// ------------------------------------------------------------------------------------------

fn probe_drain(arg: u64, sim: &Sim, obs: &Obs) -> ProbeResult {
    let mut r = ProbeResult::default();
    let mut rng = Prng::new(arg);
    let fork = sim.fork();
    let m = &sim.names.market;
    let mut first: Vec<(&'static str, Op)> = vec![];
    for b in &obs.buckets {
        first.push((
            if b.fee.is_some() { "proceeds_bucket" } else { "bucket" },
            Op::tx(&b.key_owner, m, msgs::remove_bucket(b.key_id), vec![]),
        ));
    }
    for l in &obs.listings {
        match l.status {
            St::Preparing => first.push(("preparing", Op::tx(&l.key_owner, m, msgs::delete_listing(l.id), vec![]))),
            St::Sold => first.push(("sold", Op::tx(&l.key_owner, m, msgs::withdraw_purchased(l.id), vec![]))),
            St::Finalized => {}
        }
    }
    rng.shuffle(&mut first);
    for (cls, op) in &first {
        let out = fork.apply(op);
        r.case(&[b"drain", cls.as_bytes(), &[out.ok as u8]]);
        match *cls {
            "proceeds_bucket" => r.hit("drain_proceeds_bucket"),
            "bucket" => r.hit("drain_bucket"),
            "preparing" => r.hit("drain_preparing"),
            _ => r.hit("drain_sold"),
        }
        if !out.ok {
            r.findings.push(Finding::new(
                "C07.drain_refused",
                *cls,
                format!("probe: {} failed: {}", op.short(), out.err),
            ));
        }
    }
    let fin: Vec<&LRec> = obs.listings.iter().filter(|l| l.status == St::Finalized).collect();
    if let Some(max_exp) = fin.iter().filter_map(|l| l.expiration).max() {
        let now = obs.time_ns;
        let t = max_exp + 1_000_000_000;
        if t > now {
            fork.chain.advance(t - now, (t - now) / 6_000_000_000);
        }
        let mut second: Vec<Op> = fin.iter().map(|l| Op::tx(&l.key_owner, m, msgs::delete_listing(l.id), vec![])).collect();
        rng.shuffle(&mut second);
        for op in &second {
            let out = fork.apply(op);
            r.case(&[b"drain", b"finalized", &[out.ok as u8]]);
            r.hit("drain_finalized_after_expiry");
            if !out.ok {
                r.findings.push(Finding::new(
                    "C07.drain_refused",
                    "finalized",
                    format!("probe: {} failed after expiry: {}", op.short(), out.err),
                ));
            }
        }
    }
    if r.findings.is_empty() {
        let post = fork.observe();
        if !post.listings.is_empty() || !post.buckets.is_empty() {
            r.findings.push(Finding::new(
                "C07.residue",
                "records",
                format!("after the drain {} listings and {} buckets remain", post.listings.len(), post.buckets.len()),
            ));
        }
        for ((who, d), a) in &post.bank {
            if who == m && *a > 0 {
                r.findings.push(Finding::new("C07.residue", "native", format!("after the drain the market still holds {a}{d}")));
            }
        }
        for ((t, who), a) in &post.cw20 {
            if who == m && *a > 0 {
                r.findings.push(Finding::new("C07.residue", "cw20", format!("after the drain the market still holds {a} of {t}")));
            }
        }
        for (n, o) in &post.nft_owner {
            if o == m {
                r.findings.push(Finding::new("C07.residue", "nft", format!("after the drain the market still owns {}#{}", n.0, n.1)));
            }
        }
    }
    r
}

// ------------------------------------------------------------------------------------------
// C15: exhaustive single-fault enumeration around one transaction
// ------------------------------------------------------------------------------------------

fn msg_class(d: &crate::chain::Dispatch, is_buy: bool) -> &'static str {
    match (d.class, d.key.as_str()) {
        ("bank", _) => {
            if is_buy {
                "royalty_bank_send"
            } else {
                "bank_send"
            }
        }
        ("exec", "transfer") => {
            if is_buy {
                "royalty_cw20_transfer"
            } else {
                "cw20_transfer"
            }
        }
        ("exec", "transfer_nft") => "nft_transfer",
        ("exec", "receive") => "cw20_hook",
        ("exec", "receive_nft") => "cw721_hook",
        ("pool", _) => "pool_deposit",
        _ => "other_message",
    }
}

pub fn fault_enumeration(op: &Op, action: Option<&Action>, sim: &Sim, _obs: &Obs) -> ProbeResult {
    let mut r = ProbeResult::default();
    let Op::Tx { from, to, msg, funds, .. } = op else { return r };
    let Some(a) = action else { return r };
    if !(a.act.is_market()) {
        return r;
    }
    let kind = a.act.kind();
    let is_buy = kind == "buy_listing";
    let reference = sim.fork();
    let h_pre = reference.chain.state_hash();
    let dry = reference.apply(op);
    let Some(t) = dry.tx.clone() else { return r };
    if !dry.ok || (t.dispatched.is_empty() && t.queries == 0) {
        return r;
    }
    let h_ref = reference.chain.state_hash();
    let n = t.dispatched.len();
    for i in 0..n {
        let cls = msg_class(&t.dispatched[i], is_buy);
        let f = sim.fork();
        let faulted = Op::Tx {
            from: from.clone(),
            to: to.clone(),
            msg: msg.clone(),
            funds: funds.clone(),
            fail_msg: Some(i),
            fail_query: None,
        };
        let out = f.apply(&faulted);
        let pos: u8 = if i == 0 { 0 } else if i + 1 == n { 2 } else { 1 };
        let nb: u8 = match n { 1 => 1, 2 => 2, 3..=5 => 3, 6..=12 => 4, _ => 5 };
        r.case(&[b"fail_msg", kind.as_bytes(), cls.as_bytes(), &[out.ok as u8, pos, nb, t.dispatched[i].depth.min(3) as u8]]);
        r.fault("fail_msg");
        match cls {
            "bank_send" => r.hit("fault_on_bank_send"),
            "royalty_bank_send" => r.hit("fault_on_royalty_bank_send"),
            "cw20_transfer" => r.hit("fault_on_cw20_transfer"),
            "royalty_cw20_transfer" => r.hit("fault_on_royalty_cw20_transfer"),
            "nft_transfer" => r.hit("fault_on_nft_transfer"),
            "cw20_hook" => r.hit("fault_on_cw20_hook"),
            "cw721_hook" => r.hit("fault_on_cw721_hook"),
            "pool_deposit" => r.hit("fault_on_pool_deposit"),
            _ => r.hit("fault_on_other_message"),
        }
        if out.ok {
            r.findings.push(Finding::new(
                "C15.partial_commit",
                format!("{kind}:{cls}"),
                format!("{kind}: succeeded although its outgoing message #{i} ({cls}) failed"),
            ));
            continue;
        }
        if f.chain.state_hash() != h_pre {
            r.findings.push(Finding::new(
                "C15.partial_commit",
                format!("{kind}:{cls}"),
                format!("{kind}: failed with message #{i} ({cls}) but left the state changed"),
            ));
            continue;
        }
        let again = f.apply(op);
        if !again.ok || f.chain.state_hash() != h_ref {
            r.findings.push(Finding::new(
                "C15.retry_diverged",
                format!("{kind}:{cls}"),
                format!("{kind}: retry after a failed message #{i} ({cls}) ok={} and reaches a different state", again.ok),
            ));
        }
    }
    for j in 0..t.queries {
        let f = sim.fork();
        let faulted = Op::Tx {
            from: from.clone(),
            to: to.clone(),
            msg: msg.clone(),
            funds: funds.clone(),
            fail_msg: None,
            fail_query: Some(j),
        };
        let out = f.apply(&faulted);
        r.case(&[b"fail_query", kind.as_bytes(), &[out.ok as u8]]);
        r.fault("fail_query");
        r.hit("fault_on_query");
        if !out.ok {
            if f.chain.state_hash() != h_pre {
                r.findings.push(Finding::new("SIM.atomicity", kind, "failed tx changed state".to_string()));
            }
            let again = f.apply(op);
            if !again.ok || f.chain.state_hash() != h_ref {
                r.findings.push(Finding::new(
                    "C15.retry_diverged",
                    format!("{kind}:query"),
                    format!("{kind}: retry after a failed query #{j} does not reach the normal effect"),
                ));
            }
        }
    }
    r
}

// ------------------------------------------------------------------------------------------
// C16: queries vs raw dump and vs the purchase / cycle rules
// ------------------------------------------------------------------------------------------

/// every field of the stored record is reported with the stored value (a response may carry more)
fn json_subset(stored: &Value, reported: &Value) -> bool {
    match (stored, reported) {
        (Value::Object(a), Value::Object(b)) => a.iter().all(|(k, v)| b.get(k).map_or(false, |w| json_subset(v, w))),
        (Value::Array(a), Value::Array(b)) => a.len() == b.len() && a.iter().zip(b.iter()).all(|(x, y)| json_subset(x, y)),
        (a, b) => a == b,
    }
}

fn q(sim: &Sim, msg: &Value) -> Result<Value, String> {
    let b = sim.chain.smart_query(&sim.names.market, &serde_json::to_vec(msg).unwrap())?;
    serde_json::from_slice(b.as_slice()).map_err(|e| e.to_string())
}

fn pages_to_try(n_records: usize, rng: &mut Prng, all: bool) -> Vec<u8> {
    if all {
        return (1..=255u8).collect();
    }
    let full = (n_records / 20) as i64;
    let mut v: BTreeSet<u8> = [1u8, 2, 12, 13, 14, 255].into_iter().collect();
    for d in -1..=2 {
        let p = full + d;
        if (1..=255).contains(&p) {
            v.insert(p as u8);
        }
    }
    v.insert(rng.range(1, 255) as u8);
    v.into_iter().collect()
}

fn probe_queries(arg: u64, sim: &Sim, obs: &Obs, mon: &Monitor) -> ProbeResult {
    let mut r = ProbeResult::default();
    let mut rng = Prng::new(arg);
    let names = &sim.names;
    let mut owners: BTreeSet<String> = BTreeSet::new();
    for l in &obs.listings {
        owners.insert(l.key_owner.clone());
    }
    for b in &obs.buckets {
        owners.insert(b.key_owner.clone());
    }
    owners.insert("nobody".to_string());
    let now = obs.time_ns;
    // thorough tier: one owner per probe gets every page 1..=255 on both paged queries
    let full_owner: Option<String> = if thorough() {
        let v: Vec<&String> = owners.iter().collect();
        Some((*rng.pick(&v)).clone())
    } else {
        None
    };
    for o in &owners {
        let all = full_owner.as_deref() == Some(o.as_str());
        // ---- listings by owner
        let mine: Vec<&LRec> = obs.listings.iter().filter(|l| l.key_owner == *o).collect();
        let mut got: Vec<u64> = vec![];
        let all_pages: Vec<u8> = (1..=((mine.len() / 20 + 2).min(255) as u8)).collect();
        let extra = pages_to_try(mine.len(), &mut rng, all);
        let mut pages: BTreeSet<u8> = all_pages.iter().cloned().collect();
        pages.extend(extra);
        for p in pages {
            let res = q(sim, &json!({"get_listings_by_owner": {"owner": o, "page_num": p}}));
            r.case(&[b"listings_by_owner", &[p.min(14), (mine.len().min(255) / 20) as u8, res.is_ok() as u8]]);
            if p > 12 {
                r.hit("page_above_12_queried");
            }
            match res {
                Err(e) => {
                    r.findings.push(Finding::new(
                        "C16.page_error",
                        "get_listings_by_owner",
                        format!("get_listings_by_owner({o}, page {p}) failed: {e}"),
                    ));
                }
                Ok(v) => {
                    let ls = v["listings"].as_array().cloned().unwrap_or_default();
                    if p > 12 && !ls.is_empty() {
                        r.hit("page_above_12_nonempty");
                    }
                    if ls.len() > 20 {
                        r.findings.push(Finding::new("C16.page_content", "get_listings_by_owner", format!("page {p} has {} entries", ls.len())));
                    }
                    if (p as usize) <= mine.len() / 20 + 2 {
                        for x in &ls {
                            got.push(x["id"].as_u64().unwrap_or(0));
                            // the entry must be the stored record
                            let id = x["id"].as_u64().unwrap_or(0);
                            match obs.listing_at(o, id) {
                                None => r.findings.push(Finding::new("C16.page_content", "get_listings_by_owner", format!("listing {id} reported for {o} but not stored"))),
                                Some(l) => {
                                    let stored = serde_json::to_value(&l.raw).unwrap();
                                    if !json_subset(&stored, x) {
                                        r.findings.push(Finding::new("C16.page_content", "get_listings_by_owner", format!("listing {id} reported differently from what is stored")));
                                    }
                                }
                            }
                        }
                    } else if !ls.is_empty() {
                        r.findings.push(Finding::new("C16.page_content", "get_listings_by_owner", format!("page {p} beyond the data is not empty")));
                    }
                }
            }
        }
        if !r.findings.iter().any(|f| f.rule == "C16.page_error") {
            let mut want: Vec<u64> = mine.iter().map(|l| l.id).collect();
            want.sort();
            let mut g = got.clone();
            g.sort();
            if want != g {
                r.findings.push(Finding::new(
                    "C16.page_content",
                    "get_listings_by_owner",
                    format!("paging through {o}'s listings returned {} entries, stored {}", g.len(), want.len()),
                ));
            }
        }
        if mine.len() > 240 {
            r.hit("owner_with_over_240_listings");
        }
        // ---- buckets
        let mineb: Vec<&BRec> = obs.buckets.iter().filter(|b| b.key_owner == *o).collect();
        let mut gotb: Vec<u64> = vec![];
        let mut pages: BTreeSet<u8> = (1..=((mineb.len() / 20 + 2).min(255) as u8)).collect();
        pages.extend(pages_to_try(mineb.len(), &mut rng, all));
        let mut page_err = false;
        for p in pages {
            let res = q(sim, &json!({"get_buckets": {"bucket_owner": o, "page_num": p}}));
            r.case(&[b"buckets", &[p.min(14), (mineb.len().min(255) / 20) as u8, res.is_ok() as u8]]);
            match res {
                Err(e) => {
                    page_err = true;
                    r.findings.push(Finding::new("C16.page_error", "get_buckets", format!("get_buckets({o}, page {p}) failed: {e}")));
                }
                Ok(v) => {
                    let bs = v["buckets"].as_array().cloned().unwrap_or_default();
                    if p > 12 && !bs.is_empty() {
                        r.hit("page_above_12_nonempty");
                    }
                    if (p as usize) <= mineb.len() / 20 + 2 {
                        for x in &bs {
                            let id = x[0].as_u64().unwrap_or(0);
                            gotb.push(id);
                            match obs.bucket_at(o, id) {
                                None => r.findings.push(Finding::new("C16.page_content", "get_buckets", format!("bucket {id} reported for {o} but not stored"))),
                                Some(b) => {
                                    if !json_subset(&serde_json::to_value(&b.raw).unwrap(), &x[1]) {
                                        r.findings.push(Finding::new("C16.page_content", "get_buckets", format!("bucket {id} reported differently from what is stored")));
                                    }
                                }
                            }
                        }
                    } else if !bs.is_empty() {
                        r.findings.push(Finding::new("C16.page_content", "get_buckets", format!("page {p} beyond the data is not empty")));
                    }
                }
            }
        }
        if !page_err {
            let mut want: Vec<u64> = mineb.iter().map(|b| b.key_id).collect();
            want.sort();
            gotb.sort();
            if want != gotb {
                r.findings.push(Finding::new(
                    "C16.page_content",
                    "get_buckets",
                    format!("paging through {o}'s buckets returned {} entries, stored {}", gotb.len(), want.len()),
                ));
            }
        }
        if mineb.len() > 240 {
            r.hit("owner_with_over_240_buckets");
        }
    }

    // ---- the same set checks at forked instants around an expiration (sub-second resolution)
    {
        let fin: Vec<&LRec> = obs.listings.iter().filter(|l| l.status == St::Finalized && l.expiration.map_or(false, |e| e > now)).collect();
        if let Some(l) = rng.pick_opt(&fin) {
            let e = l.expiration.unwrap();
            let offsets: [i64; 6] = [-1_000_000_000, -500_000_000, -1, 0, 1, 500_000_000];
            let k = if thorough() { 6 } else { 2 };
            let mut offs = offsets.to_vec();
            rng.shuffle(&mut offs);
            for d in offs.into_iter().take(k) {
                let t = (e as i128 + d as i128) as u64;
                if t <= now {
                    continue;
                }
                let f = sim.fork();
                f.chain.advance(t - now, (t - now) / 6_000_000_000);
                let fo = f.observe();
                r.hit("set_check_at_forked_expiry_instant");
                if l.finalized.map_or(false, |fz| e - fz == 1_209_600 * 1_000_000_000) && d < 0 {
                    r.hit("max_lifetime_listing_in_its_last_second");
                }
                set_checks(&f, &fo, &mut r, &mut rng, true);
            }
        }
    }
    set_checks(sim, obs, &mut r, &mut rng, false);
    fee_query_checks(sim, obs, &mut r, &mut rng);
    r
}

/// market and whitelist queries vs the purchase rule on the given (possibly forked) world
fn set_checks(sim: &Sim, obs: &Obs, r: &mut ProbeResult, rng: &mut Prng, forked: bool) {
    let names = &sim.names;
    let now = obs.time_ns;
    let _ = &rng;
    // ---- market listing: must contain every purchasable listing, nothing unpurchasable
    let must: BTreeSet<u64> = obs
        .listings
        .iter()
        .filter(|l| l.status == St::Finalized && l.expiration.map_or(false, |e| now < e))
        .map(|l| l.id)
        .collect();
    let may: BTreeSet<u64> = obs
        .listings
        .iter()
        .filter(|l| l.status == St::Finalized && l.expiration.map_or(false, |e| now <= e))
        .map(|l| l.id)
        .collect();
    for l in &obs.listings {
        if l.status == St::Finalized {
            if let Some(e) = l.expiration {
                if e / 1_000_000_000 == now / 1_000_000_000 {
                    if now > e {
                        r.hit("expired_within_current_second");
                    } else if now < e {
                        r.hit("expiring_within_current_second");
                    }
                }
            }
        }
    }
    let n_fin = obs.listings.iter().filter(|l| l.finalized.is_some()).count();
    let mut got: Vec<u64> = vec![];
    let mut pages: BTreeSet<u8> = (1..=((n_fin / 20 + 2).min(255) as u8)).collect();
    if forked {
        // the forked variants judge the sets only
    } else if thorough() && rng.chance(1, 3) {
        pages.extend(1..=255u8);
    } else {
        pages.extend([13u8, 14, 128, 255]);
    }
    let mut page_err = false;
    for p in pages {
        let res = q(sim, &json!({"get_listings_for_market": {"page_num": p}}));
        r.case(&[b"market", &[p.min(14), res.is_ok() as u8, (must.len().min(40)) as u8]]);
        match res {
            Err(e) => {
                page_err = true;
                r.findings.push(Finding::new("C16.page_error", "get_listings_for_market", format!("get_listings_for_market(page {p}) failed: {e}")));
            }
            Ok(v) => {
                for x in v["listings"].as_array().cloned().unwrap_or_default() {
                    got.push(x["id"].as_u64().unwrap_or(0));
                }
            }
        }
    }
    if !page_err {
        let gs: BTreeSet<u64> = got.iter().cloned().collect();
        if gs.len() != got.len() {
            r.findings.push(Finding::new("C16.market_set", "duplicate", "a listing is returned on two pages of the market query".to_string()));
        }
        for id in &must {
            if !gs.contains(id) {
                r.findings.push(Finding::new("C16.market_set", "missing", format!("purchasable listing {id} is not returned by the market query")));
            }
        }
        for id in &gs {
            if !may.contains(id) {
                let why = obs.listing_by_id(*id).map(|l| lifecycle(l, now)).unwrap_or("absent");
                r.findings.push(Finding::new(
                    "C16.market_set",
                    format!("listed_but_{why}"),
                    format!("listing {id} is returned by the market query but is {why} (now {now}, exp {:?})", obs.listing_by_id(*id).and_then(|l| l.expiration)),
                ));
            }
        }
    }
    // ---- whitelist query: for every user, and for every string that occurs as a buyer component in the
    // raw whitelist index and happens to be a valid address (an index sentinel must not be one)
    let mut askers: Vec<String> = names.users.clone();
    {
        let ns = b"listing__whitelisted__buyer";
        let mut head = vec![0u8, ns.len() as u8];
        head.extend_from_slice(ns);
        let st = crate::chain::CStore::new(&sim.chain, &names.market);
        for (k, _) in cosmwasm_std::Storage::range(&st, None, None, cosmwasm_std::Order::Ascending) {
            if k.len() > head.len() + 2 && k.starts_with(&head) {
                let l = ((k[head.len()] as usize) << 8) | k[head.len() + 1] as usize;
                let from = head.len() + 2;
                if from + l <= k.len() {
                    if let Ok(sx) = std::str::from_utf8(&k[from..from + l]) {
                        if spec::valid_addr(sx) && !askers.iter().any(|a| a == sx) {
                            askers.push(sx.to_string());
                            r.hit("whitelist_query_for_index_sentinel");
                        }
                    }
                }
            }
        }
    }
    for a in askers.iter() {
        let res = q(sim, &json!({"get_listings_by_whitelist": {"owner": a}}));
        r.case(&[b"whitelist", &[res.is_ok() as u8]]);
        match res {
            Err(e) => r.findings.push(Finding::new("C16.page_error", "get_listings_by_whitelist", format!("whitelist query for {a} failed: {e}"))),
            Ok(v) => {
                let gs: BTreeSet<u64> =
                    v["listings"].as_array().cloned().unwrap_or_default().iter().map(|x| x["id"].as_u64().unwrap_or(0)).collect();
                let reserved = |l: &&LRec| l.wl.as_deref() == Some(a.as_str());
                if obs.listings.iter().filter(reserved).any(|l| l.status == St::Sold || lifecycle(l, now) == "expired") {
                    r.hit("whitelist_query_with_sold_or_expired");
                }
                for l in obs.listings.iter().filter(reserved) {
                    if must.contains(&l.id) && !gs.contains(&l.id) {
                        r.findings.push(Finding::new("C16.whitelist_set", "missing", format!("listing {} reserved for {a} is purchasable but not returned", l.id)));
                    }
                }
                for id in &gs {
                    let ok = obs.listing_by_id(*id).map_or(false, |l| l.wl.as_deref() == Some(a.as_str()) && may.contains(id));
                    if !ok {
                        let why = obs.listing_by_id(*id).map(|l| lifecycle(l, now)).unwrap_or("absent");
                        r.findings.push(Finding::new(
                            "C16.whitelist_set",
                            format!("listed_but_{why}"),
                            format!("whitelist query for {a} returns listing {id} which is {why} or not reserved for them"),
                        ));
                    }
                }
            }
        }
    }
}

fn fee_query_checks(sim: &Sim, obs: &Obs, r: &mut ProbeResult, rng: &mut Prng) {
    let names = &sim.names;
    let now = obs.time_ns;
    // ---- fee query
    match q(sim, &json!({"get_fee_denom": {}})) {
        Err(e) => r.findings.push(Finding::new("C16.page_error", "get_fee_denom", format!("fee query failed: {e}"))),
        Ok(v) => {
            r.case(&[b"fee_query", &[obs.fee_usdc as u8]]);
            if obs.fee_usdc {
                r.hit("fee_query_after_switch");
            } else {
                r.hit("fee_query_before_switch");
            }
            let denom = v["denom"].as_str().unwrap_or("");
            if denom != obs.fee_denom() {
                r.findings.push(Finding::new("C16.fee_denom", "denom", format!("fee query reports {denom}, purchases are charged in {}", obs.fee_denom())));
            }
            let next = v["next_change"].as_u64().unwrap_or(0);
            let now_s = now / 1_000_000_000;
            let nanos = rng.below(1_000_000_000);
            // before next_change a cycle attempt is refused …
            if next >= 1 && next - 1 >= now_s {
                let f = sim.fork();
                let t = (next - 1) * 1_000_000_000 + nanos;
                if t > now {
                    f.chain.advance(t - now, 1);
                }
                let out = f.apply(&Op::tx("user0", &names.market, msgs::fee_cycle(), vec![]));
                r.case(&[b"cycle_before_next_change", &[out.ok as u8]]);
                if out.ok {
                    r.findings.push(Finding::new("C16.next_change", "early", format!("fee query says next change at {next}, but a cycle at {} s succeeded", next - 1)));
                }
            }
            // … after it, accepted
            {
                let f = sim.fork();
                let target_s = (next + 1).max(now_s);
                let t = target_s * 1_000_000_000 + nanos;
                if t > now {
                    f.chain.advance(t - now, 1);
                }
                let at = f.chain.now_ns() / 1_000_000_000;
                if at > next {
                    let out = f.apply(&Op::tx("user0", &names.market, msgs::fee_cycle(), vec![]));
                    r.case(&[b"cycle_after_next_change", &[out.ok as u8]]);
                    if !out.ok {
                        r.findings.push(Finding::new(
                            "C16.next_change",
                            "late",
                            format!("fee query says next change at {next}, but a cycle at {at} s is refused: {}", out.err),
                        ));
                    }
                }
            }
        }
    }
}

// ------------------------------------------------------------------------------------------
// C14: lookups vs the observed registry
// ------------------------------------------------------------------------------------------

fn probe_registry_lookup(arg: u64, sim: &Sim, obs: &Obs) -> ProbeResult {
    let mut r = ProbeResult::default();
    let mut rng = Prng::new(arg);
    let names = &sim.names;
    let rq = |msg: &Value| -> Result<Value, String> {
        let b = sim.chain.smart_query(&names.registry, &serde_json::to_vec(msg).unwrap())?;
        serde_json::from_slice(b.as_slice()).map_err(|e| e.to_string())
    };
    let entry_json = |c: &str| -> Value {
        match obs.registry.get(c) {
            None => Value::Null,
            Some(e) => json!({"last_updated": e.last_updated, "bps": e.bps, "payout_addr": e.payout}),
        }
    };
    let mut universe: Vec<String> = names.colls.clone();
    universe.push(names.cw20s[0].clone());
    universe.push("user0".to_string());
    for c in &universe {
        let res = rq(&json!({"royalty_info_single": {"nft_contract": c}}));
        r.case(&[b"single", &[obs.registry.contains_key(c) as u8, res.is_ok() as u8]]);
        match res {
            Err(e) => r.findings.push(Finding::new("C14.lookup_mismatch", "single", format!("single lookup of {c} failed: {e}"))),
            Ok(v) => {
                // every stored field is reported with the stored value (an entry may carry more fields)
                if !(json_subset(&entry_json(c), &v) && (entry_json(c).is_null() == v.is_null())) {
                    r.findings.push(Finding::new("C14.lookup_mismatch", "single", format!("single lookup of {c} returns {v}, stored {}", entry_json(c))));
                }
            }
        }
    }
    for round in 0..4 {
        // three small batches and one far larger than any the marketplace itself would send
        let n = if round == 3 { rng.range(51, 80) as usize } else { rng.range(1, 6) as usize };
        if round == 3 {
            r.hit("multi_lookup_over_50_entries");
        }
        let mut req: Vec<String> = vec![];
        for _ in 0..n {
            req.push(rng.pick(&universe).clone());
        }
        let has_dup = {
            let s: BTreeSet<&String> = req.iter().collect();
            s.len() != req.len()
        };
        let has_unreg = req.iter().any(|c| !obs.registry.contains_key(c));
        let res = rq(&json!({"royalty_info_multi": {"nft_contracts": req}}));
        r.case(&[b"multi", &[n.min(60) as u8, has_dup as u8, has_unreg as u8, res.is_ok() as u8]]);
        if has_dup {
            r.hit("multi_lookup_with_duplicates");
        }
        if has_unreg && req.iter().any(|c| obs.registry.contains_key(c)) {
            r.hit("multi_lookup_mixed_registered_unregistered");
        }
        match res {
            Err(e) => r.findings.push(Finding::new("C14.lookup_mismatch", "multi", format!("batched lookup of {:?} failed: {e}", req))),
            Ok(v) => {
                let want: Vec<Value> = req.iter().map(|c| entry_json(c)).collect();
                let same = match v.as_array() {
                    Some(a) => a.len() == want.len() && a.iter().zip(want.iter()).all(|(x, w)| json_subset(w, x) && (w.is_null() == x.is_null())),
                    None => false,
                };
                if !same {
                    r.findings.push(Finding::new(
                        "C14.lookup_mismatch",
                        "multi",
                        format!("batched lookup of {:?} returns {v}, expected {}", req, Value::Array(want)),
                    ));
                }
            }
        }
    }
    r
}

// ------------------------------------------------------------------------------------------
// C18: a Byzantine token-shaped contract
// ------------------------------------------------------------------------------------------

fn probe_hostile(arg: u64, sim: &Sim, obs: &Obs) -> ProbeResult {
    let mut r = ProbeResult::default();
    let mut rng = Prng::new(arg);
    let names = &sim.names;
    let m = &names.market;
    let h = &names.hostile;
    let now = obs.time_ns;
    let cap = if thorough() { 8 } else { 4 };
    let an_ask = AskSpec { native: vec![("ujunox".into(), 1)], ..Default::default() };

    #[derive(Clone)]
    enum Victim {
        L(LRec),
        B(BRec),
    }
    let mut victims: Vec<Victim> = obs.listings.iter().cloned().map(Victim::L).collect();
    victims.extend(obs.buckets.iter().cloned().map(Victim::B));
    rng.shuffle(&mut victims);
    victims.truncate(cap);

    // what the victim can do with its record on an untouched fork
    let cashout = |v: &Victim| -> Op {
        match v {
            Victim::B(b) => Op::tx(&b.key_owner, m, msgs::remove_bucket(b.key_id), vec![]),
            Victim::L(l) => match l.status {
                St::Sold => Op::tx(&l.key_owner, m, msgs::withdraw_purchased(l.id), vec![]),
                _ => Op::tx(&l.key_owner, m, msgs::delete_listing(l.id), vec![]),
            },
        }
    };

    for v in &victims {
        let (owner, id, lc, is_listing) = match v {
            Victim::L(l) => (l.key_owner.clone(), l.id, lifecycle(l, now), true),
            Victim::B(b) => (b.key_owner.clone(), b.key_id, if b.fee.is_some() { "proceeds_bucket" } else { "bucket" }, false),
        };
        let baseline_cashout = {
            let f = sim.fork();
            f.apply(&cashout(v)).ok
        };
        // a purchase the victim could make with this bucket / a purchase somebody could make of this listing
        let baseline_buy: Option<(Op, bool)> = match v {
            Victim::B(b) => obs
                .listings
                .iter()
                .find(|l| l.status == St::Finalized && l.ask == b.funds)
                .map(|l| Op::tx(&owner, m, msgs::buy(l.id, b.key_id), vec![]))
                .map(|op| {
                    let f = sim.fork();
                    let ok = f.apply(&op).ok;
                    (op, ok)
                }),
            Victim::L(l) => obs
                .buckets
                .iter()
                .find(|b| l.status == St::Finalized && l.ask == b.funds)
                .map(|b| Op::tx(&b.key_owner, m, msgs::buy(l.id, b.key_id), vec![]))
                .map(|op| {
                    let f = sim.fork();
                    let ok = f.apply(&op).ok;
                    (op, ok)
                }),
        };

        let mut calls: Vec<(&'static str, Value)> = vec![];
        let amounts: [u128; 2] = [1, 1u128 << 100];
        for amt in amounts {
            if is_listing {
                calls.push(("receive→add_to_listing_cw20", msgs::market_receive(&owner, amt, &msgs::inner_add_to_listing_cw20(id))));
                calls.push(("receive→create_listing_cw20", msgs::market_receive(&owner, amt, &msgs::inner_create_listing_cw20(id, &an_ask, None))));
            } else {
                calls.push(("receive→add_to_bucket_cw20", msgs::market_receive(&owner, amt, &msgs::inner_add_to_bucket_cw20(id))));
                calls.push(("receive→create_bucket_cw20", msgs::market_receive(&owner, amt, &msgs::inner_create_bucket_cw20(id))));
            }
        }
        let existing_tid: Option<String> = match v {
            Victim::L(l) => l.goods.nfts.iter().next().map(|n| n.1.clone()),
            Victim::B(b) => b.funds.nfts.iter().next().map(|n| n.1.clone()),
        };
        let mut tids: Vec<String> = vec!["junk1".to_string()];
        if let Some(t) = existing_tid {
            tids.push(t);
        }
        for tid in &tids {
            if is_listing {
                calls.push(("receive_nft→add_to_listing_cw721", msgs::market_receive_nft(&owner, tid, &msgs::inner_add_to_listing_cw721(id))));
                calls.push(("receive_nft→create_listing_cw721", msgs::market_receive_nft(&owner, tid, &msgs::inner_create_listing_cw721(id, &an_ask, None))));
            } else {
                calls.push(("receive_nft→add_to_bucket_cw721", msgs::market_receive_nft(&owner, tid, &msgs::inner_add_to_bucket_cw721(id))));
                calls.push(("receive_nft→create_bucket_cw721", msgs::market_receive_nft(&owner, tid, &msgs::inner_create_bucket_cw721(id))));
            }
        }

        for (name, call) in &calls {
            for with_coins in [false, true] {
                if with_coins && !rng.chance(1, 3) {
                    continue;
                }
                let f = sim.fork();
                let funds: Vec<(String, u128)> = if !with_coins {
                    vec![]
                } else if rng.chance(1, 2) {
                    vec![("ujunox".to_string(), 5)]
                } else {
                    vec![("ujunox".to_string(), 5), ("uatom".to_string(), 2)]
                };
                for (d, _) in &funds {
                    f.chain.mint(h, d, 100);
                }
                let op = Op::tx("bystander", h, msgs::hostile_forward(m, call, &funds), vec![]);
                let out = f.apply(&op);
                r.case(&[b"hostile", name.as_bytes(), lc.as_bytes(), &[with_coins as u8, out.ok as u8]]);
                r.fault("hostile_call");
                match lc {
                    "preparing" => r.hit("hostile_vs_preparing"),
                    "finalized" => r.hit("hostile_vs_finalized"),
                    "expired" => r.hit("hostile_vs_expired"),
                    "sold" => r.hit("hostile_vs_sold"),
                    "bucket" => r.hit("hostile_vs_bucket"),
                    _ => r.hit("hostile_vs_proceeds_bucket"),
                }
                if !out.ok {
                    continue;
                }
                // buckets can be topped up in every lifecycle state, so the signature does not split them
                let sig_lc = if is_listing { lc } else { "bucket" };
                let sig = format!("{name} [{sig_lc}]{}", if with_coins { " +coins" } else { "" });
                let post = f.observe();
                let altered = match v {
                    Victim::L(l) => post.listing_at(&owner, id).map_or(true, |x| x.raw != l.raw),
                    Victim::B(b) => post.bucket_at(&owner, id).map_or(true, |x| x.raw != b.raw),
                };
                if altered {
                    r.findings.push(Finding::new(
                        "C18.victim_altered",
                        sig.clone(),
                        format!("hostile contract changed {owner}'s {} {id} through {name}", if is_listing { "listing" } else { "bucket" }),
                    ));
                }
                // can the victim still cash out — also when the hostile token refuses to move?
                for refuse in [false, true] {
                    let g = f.fork();
                    if refuse {
                        g.apply(&Op::tx("bystander", h, msgs::hostile_set_fail(true), vec![]));
                        r.fault("hostile_transfer_refused");
                    }
                    let ok = g.apply(&cashout(v)).ok;
                    r.case(&[b"hostile_cashout", name.as_bytes(), &[refuse as u8, ok as u8]]);
                    if ok != baseline_cashout {
                        r.findings.push(Finding::new(
                            "C18.victim_frozen",
                            sig.clone(),
                            format!(
                                "after the hostile call {owner} can{} cash out {} {id} (before: can{}){}",
                                if ok { "" } else { "not" },
                                if is_listing { "listing" } else { "bucket" },
                                if baseline_cashout { "" } else { "not" },
                                if refuse { " — hostile token refuses transfers" } else { "" }
                            ),
                        ));
                    }
                }
                if let Some((bop, bok)) = &baseline_buy {
                    let g = f.fork();
                    let ok = g.apply(bop).ok;
                    if ok != *bok {
                        r.findings.push(Finding::new(
                            "C18.victim_cannot_buy",
                            sig.clone(),
                            format!("after the hostile call the purchase {} has outcome {ok} (before: {bok})", bop.short()),
                        ));
                    }
                }
                // other records must be untouched as well
                for l in &obs.listings {
                    if !(is_listing && l.id == id) && post.listing_at(&l.key_owner, l.id).map_or(true, |x| x.raw != l.raw) {
                        r.findings.push(Finding::new("C18.victim_altered", format!("{name} [collateral]"), format!("hostile call changed unrelated listing {}", l.id)));
                    }
                }
                for b in &obs.buckets {
                    if !(!is_listing && b.key_id == id) && post.bucket_at(&b.key_owner, b.key_id).map_or(true, |x| x.raw != b.raw) {
                        r.findings.push(Finding::new("C18.victim_altered", format!("{name} [collateral]"), format!("hostile call changed unrelated bucket {}", b.key_id)));
                    }
                }
            }
        }
    }
    r
}

// ------------------------------------------------------------------------------------------
// C19: coins attached to every message kind
// ------------------------------------------------------------------------------------------

fn probe_coins(arg: u64, sim: &Sim, obs: &Obs, mon: &Monitor) -> ProbeResult {
    let mut r = ProbeResult::default();
    let mut rng = Prng::new(arg);
    let names = &sim.names;
    let m = &names.market;
    let now = obs.time_ns;
    let an_ask = AskSpec { native: vec![("uatom".into(), 3)], ..Default::default() };
    // (kind, sender, message) — instances that would succeed without coins where the state offers one,
    // plus one that would fail anyway
    let mut cands: Vec<(&'static str, String, Value)> = vec![];
    if let Some(l) = obs.listings.iter().find(|l| l.status == St::Preparing) {
        cands.push(("change_ask", l.key_owner.clone(), msgs::change_ask(l.id, &an_ask)));
        cands.push(("finalize", l.key_owner.clone(), msgs::finalize(l.id, 600)));
        cands.push(("delete_listing", l.key_owner.clone(), msgs::delete_listing(l.id)));
    }
    if let Some(l) = obs.listings.iter().find(|l| l.status == St::Finalized && l.expiration.map_or(false, |e| now > e)) {
        cands.push(("delete_listing", l.key_owner.clone(), msgs::delete_listing(l.id)));
    }
    if let Some(b) = obs.buckets.first() {
        cands.push(("remove_bucket", b.key_owner.clone(), msgs::remove_bucket(b.key_id)));
    }
    for b in &obs.buckets {
        if let Some(l) = obs.listings.iter().find(|l| l.status == St::Finalized && l.ask == b.funds) {
            cands.push(("buy_listing", b.key_owner.clone(), msgs::buy(l.id, b.key_id)));
            break;
        }
    }
    if let Some(l) = obs.listings.iter().find(|l| l.status == St::Sold) {
        cands.push(("withdraw_purchased", l.key_owner.clone(), msgs::withdraw_purchased(l.id)));
    }
    cands.push(("fee_cycle", "user0".to_string(), msgs::fee_cycle()));
    // ones that fail anyway
    cands.push(("finalize", "user1".to_string(), msgs::finalize(999_999, 600)));
    cands.push(("remove_bucket", "user1".to_string(), msgs::remove_bucket(999_999)));
    cands.push(("receive", "user0".to_string(), msgs::market_receive("user0", 5, &msgs::inner_create_bucket_cw20(999_998))));
    cands.push(("receive_nft", "user0".to_string(), msgs::market_receive_nft("user0", "1", &msgs::inner_create_bucket_cw721(999_997))));

    let coin_sets: Vec<Vec<Fund>> = vec![
        vec![fund("ujunox", 7)],
        vec![fund("uatom", 1)],
        vec![fund("uusdcx", 3), fund("uatom", 2)],
    ];
    for (kind, who, msg) in &cands {
        let coins = rng.pick(&coin_sets).clone();
        if coins.iter().any(|c| obs.bal(who, &Fung::Native(c.denom.clone())) < c.amount) {
            continue;
        }
        // would it succeed without coins?
        let plain = Op::tx(who, m, msg.clone(), vec![]);
        let bare_ok = {
            let f = sim.fork();
            f.apply(&plain).ok
        };
        let f = sim.fork();
        let op = Op::tx(who, m, msg.clone(), coins.clone());
        let out = f.apply(&op);
        r.case(&[b"coins", kind.as_bytes(), &[bare_ok as u8, out.ok as u8, coins.len() as u8]]);
        r.fault("attach_coins");
        if bare_ok {
            r.hit("coins_on_message_that_would_succeed");
        } else {
            r.hit("coins_on_message_that_would_fail");
        }
        if *kind == "receive" || *kind == "receive_nft" {
            r.hit("coins_on_receive_entry_point");
        }
        if out.ok {
            r.findings.push(Finding::new(
                "C19.coins_kept",
                format!("{kind}:CoinsAttached"),
                format!("probe: {} succeeded with coins attached — the coins stay in the market", op.short()),
            ));
        } else {
            let post = f.observe();
            for c in &coins {
                let k = Fung::Native(c.denom.clone());
                if post.bal(who, &k) != obs.bal(who, &k) {
                    r.findings.push(Finding::new("C19.failed_but_charged", *kind, format!("probe: {} failed but {who}'s {} changed", op.short(), c.denom)));
                }
            }
        }
    }
    // the receive entry points reached through a token-shaped contract that attaches coins
    for (kind, inner) in [
        ("receive", msgs::market_receive("user0", 5, &msgs::inner_create_bucket_cw20(999_996))),
        ("receive_nft", msgs::market_receive_nft("user0", "junk", &msgs::inner_create_bucket_cw721(999_995))),
    ] {
        for coins in [
            vec![("ujunox".to_string(), 5u128)],
            vec![("ujunox".to_string(), 5u128), ("uatom".to_string(), 3u128)],
            vec![("uatom".to_string(), 2u128), ("uusdcx".to_string(), 1u128), ("ujunox".to_string(), 1u128)],
        ] {
            let f = sim.fork();
            for (d, _) in &coins {
                f.chain.mint(&names.hostile, d, 50);
            }
            let op = Op::tx("bystander", &names.hostile, msgs::hostile_forward(m, &inner, &coins), vec![]);
            let out = f.apply(&op);
            r.case(&[b"coins_via_contract", kind.as_bytes(), &[out.ok as u8, coins.len() as u8]]);
            r.fault("attach_coins");
            r.hit("coins_on_receive_entry_point");
            if coins.len() > 1 {
                r.hit("several_denoms_on_receive_entry_point");
            }
            if out.ok {
                r.findings.push(Finding::new(
                    "C19.coins_kept",
                    format!("{kind}:CoinsAttached"),
                    format!("probe: {kind} called by a contract with {} denomination(s) attached succeeded", coins.len()),
                ));
            }
        }
    }
    // coin sets at the edges of narrow or summing counters: amounts that are multiples of 2^64, and two
    // coins whose sum does not fit 128 bits (minted on the fork; the property is about the message kinds)
    {
        let big: Vec<Vec<(String, u128)>> = vec![
            vec![("uhuge".to_string(), 1u128 << 127), ("uvast".to_string(), 1u128 << 127)],
            vec![("ujunox".to_string(), 1u128 << 64)],
            vec![("uatom".to_string(), 3 * (1u128 << 64)), ("uhuge".to_string(), 1u128 << 64)],
        ];
        for coins in &big {
            // (a) a non-deposit message by a user
            if let Some(b) = obs.buckets.first() {
                let f = sim.fork();
                for (d, a) in coins {
                    f.chain.mint(&b.key_owner, d, *a);
                }
                let funds: Vec<Fund> = coins.iter().map(|(d, a)| fund(d, *a)).collect();
                let op = Op::tx(&b.key_owner, m, msgs::remove_bucket(b.key_id), funds);
                let out = f.apply(&op);
                r.case(&[b"coins_big", b"remove_bucket", &[out.ok as u8, coins.len() as u8]]);
                r.fault("attach_coins");
                r.hit("coins_at_counter_edges");
                if out.ok {
                    r.findings.push(Finding::new("C19.coins_kept", "remove_bucket:CoinsAttached", format!("probe: {} succeeded with coins attached", op.short())));
                }
            }
            // (b) a receive hook forwarded by a contract
            let f = sim.fork();
            for (d, a) in coins {
                f.chain.mint(&names.hostile, d, *a);
            }
            let inner = msgs::market_receive("user0", 5, &msgs::inner_create_bucket_cw20(999_994));
            let op = Op::tx("bystander", &names.hostile, msgs::hostile_forward(m, &inner, coins), vec![]);
            let out = f.apply(&op);
            r.case(&[b"coins_big", b"receive", &[out.ok as u8, coins.len() as u8]]);
            r.fault("attach_coins");
            if out.ok {
                r.findings.push(Finding::new("C19.coins_kept", "receive:CoinsAttached", "probe: receive called by a contract with coins attached (amounts at counter edges) succeeded".to_string()));
            }
        }
        // a hook that announces zero tokens, with coins: directly by a user and forwarded by a contract
        for via_contract in [false, true] {
            let f = sim.fork();
            let inner = msgs::market_receive("user0", 0, &msgs::inner_create_bucket_cw20(999_993));
            let op = if via_contract {
                f.chain.mint(&names.hostile, "ujunox", 50);
                Op::tx("bystander", &names.hostile, msgs::hostile_forward(m, &inner, &[("ujunox".to_string(), 5)]), vec![])
            } else {
                Op::tx("user0", m, inner.clone(), vec![fund("ujunox", 5)])
            };
            let before = obs.bal("user0", &Fung::Native("ujunox".into()));
            if !via_contract && before < 5 {
                continue;
            }
            let out = f.apply(&op);
            r.case(&[b"coins_zero_amount_hook", &[via_contract as u8, out.ok as u8]]);
            r.fault("attach_coins");
            r.hit("coins_on_zero_amount_hook");
            if out.ok {
                r.findings.push(Finding::new("C19.coins_kept", "receive:CoinsAttached", format!("probe: {} succeeded with coins attached", op.short())));
            }
        }
    }
    // a fee cycle that is due (fork the clock past the week mark), with coins
    {
        let f = sim.fork();
        f.chain.advance(8 * 86400 * 1_000_000_000 + rng.below(1_000_000_000), 100_000);
        let coins = rng.pick(&coin_sets).clone();
        if !coins.iter().any(|c| obs.bal("user1", &Fung::Native(c.denom.clone())) < c.amount) {
            let op = Op::tx("user1", m, msgs::fee_cycle(), coins);
            let out = f.apply(&op);
            r.case(&[b"coins", b"fee_cycle_due", &[out.ok as u8]]);
            r.fault("attach_coins");
            r.hit("coins_on_due_fee_cycle");
            r.hit("coins_on_message_that_would_succeed");
            if out.ok {
                r.findings.push(Finding::new(
                    "C19.coins_kept",
                    "fee_cycle:CoinsAttached",
                    format!("probe: {} succeeded with coins attached once the cycle is due", op.short()),
                ));
            }
        }
    }
    let _ = mon;
    r
}
