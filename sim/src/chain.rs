//! The simulated chain: one ordered KV with an undo journal, bank, community pool, wasm
//! router with wasmd's sub-message / reply semantics, querier, block clock, and a per
//! transaction fault plan.  Everything in here is a STUB standing in for Juno; the contract
//! code it runs (module `contracts`) is the real code of /repo and of cw20-base / cw721-base.
//!
//! No HashMap, no wall clock, no randomness: behaviour is a pure function of the calls made.

use std::cell::RefCell;
use std::collections::BTreeMap;
use std::panic::{catch_unwind, AssertUnwindSafe};
use std::rc::Rc;

use cosmwasm_std::testing::MockApi;
use cosmwasm_std::{
    from_slice, to_binary, Addr, BankMsg, BankQuery, Binary, BlockInfo, Coin, ContractInfo,
    ContractResult, CosmosMsg, DistributionMsg, Empty, Env, MessageInfo, Order, Querier,
    QuerierResult, QueryRequest, Record, Reply, ReplyOn, Response, Storage, SubMsgResponse,
    SubMsgResult, SystemError, SystemResult, Timestamp, Uint128, WasmMsg, WasmQuery,
};

use crate::contracts::{self, Kind};
use crate::proto;

pub const CHAIN_ID: &str = "fzsim-1";
pub const POOL_TYPE_URL: &str = "/cosmos.distribution.v1beta1.MsgFundCommunityPool";

// ------------------------------------------------------------------------------------------
// World
// ------------------------------------------------------------------------------------------

#[derive(Clone, Debug, PartialEq, Eq)]
pub struct Meta {
    pub kind: Kind,
    pub code_id: u64,
    pub creator: String,
    pub admin: Option<String>,
}

#[derive(Clone, Copy, Debug, Default, PartialEq, Eq)]
pub struct Fault {
    /// the i-th message dispatched during this transaction (any depth, depth-first order)
    /// returns an error instead of being executed
    pub fail_msg: Option<usize>,
    /// the j-th cross-contract / bank query issued by contract code during this transaction fails
    pub fail_query: Option<usize>,
}

#[derive(Clone, Debug, PartialEq, Eq)]
pub struct Dispatch {
    pub idx: usize,
    pub from: String,
    /// "bank", "exec", "instantiate", "pool", "admin", "other"
    pub class: &'static str,
    pub to: String,
    /// first JSON key of an execute message ("transfer", "transfer_nft", "receive", …)
    pub key: String,
    pub depth: usize,
}

#[derive(Clone, Debug, PartialEq, Eq)]
pub struct PoolMsg {
    pub from: String,
    pub depositor: String,
    pub coins: Vec<(String, u128)>,
    /// None = accepted; Some(reason) = rejected by the chain stub as malformed / unauthorised
    pub rejected: Option<String>,
    pub typed: bool,
}

#[derive(Clone, Debug, Default)]
pub struct TxOut {
    pub ok: bool,
    pub err: String,
    pub panicked: bool,
    pub dispatched: Vec<Dispatch>,
    pub pool_msgs: Vec<PoolMsg>,
    pub queries: usize,
    pub fault_fired: bool,
    /// a sub-message error was swallowed by a `reply` handler (reply_on error/always returning Ok)
    pub swallowed_errors: usize,
}

#[derive(Clone)]
pub struct World {
    pub kv: BTreeMap<Vec<u8>, Vec<u8>>,
    journal: Vec<(Vec<u8>, Option<Vec<u8>>)>,
    pub height: u64,
    pub time_ns: u64,
    pub next_contract: u32,
    /// code id -> kind (code ids start at 1)
    pub codes: Vec<Kind>,
    pub lenient_bank: bool,
    // ---- per transaction ----
    fault: Fault,
    msg_counter: usize,
    query_counter: usize,
    counting_queries: bool,
    depth: usize,
    out: TxOut,
}

#[derive(Clone)]
pub struct Chain(pub Rc<RefCell<World>>);

fn k_wasm_prefix(addr: &str) -> Vec<u8> {
    let mut k = Vec::with_capacity(2 + addr.len());
    k.push(b'w');
    k.push(addr.len() as u8);
    k.extend_from_slice(addr.as_bytes());
    k
}
fn k_bank_prefix(addr: &str) -> Vec<u8> {
    let mut k = Vec::with_capacity(2 + addr.len());
    k.push(b'b');
    k.push(addr.len() as u8);
    k.extend_from_slice(addr.as_bytes());
    k
}
fn k_bank(addr: &str, denom: &str) -> Vec<u8> {
    let mut k = k_bank_prefix(addr);
    k.extend_from_slice(denom.as_bytes());
    k
}
fn k_pool(denom: &str) -> Vec<u8> {
    let mut k = vec![b'p'];
    k.extend_from_slice(denom.as_bytes());
    k
}
fn k_meta(addr: &str) -> Vec<u8> {
    let mut k = vec![b'm'];
    k.extend_from_slice(addr.as_bytes());
    k
}

fn enc_meta(m: &Meta) -> Vec<u8> {
    let v = serde_json::json!({
        "kind": m.kind.name(), "code_id": m.code_id, "creator": m.creator, "admin": m.admin
    });
    serde_json::to_vec(&v).unwrap()
}
fn dec_meta(b: &[u8]) -> Meta {
    let v: serde_json::Value = serde_json::from_slice(b).unwrap();
    Meta {
        kind: Kind::from_name(v["kind"].as_str().unwrap()).unwrap(),
        code_id: v["code_id"].as_u64().unwrap(),
        creator: v["creator"].as_str().unwrap().to_string(),
        admin: v["admin"].as_str().map(|s| s.to_string()),
    }
}

/// prefix upper bound for range scans: smallest key greater than every key starting with `p`
fn prefix_end(p: &[u8]) -> Option<Vec<u8>> {
    let mut e = p.to_vec();
    while let Some(last) = e.pop() {
        if last != 0xff {
            e.push(last + 1);
            return Some(e);
        }
    }
    None
}

impl World {
    fn raw_set(&mut self, k: Vec<u8>, v: Vec<u8>) {
        let old = self.kv.insert(k.clone(), v);
        self.journal.push((k, old));
    }
    fn raw_del(&mut self, k: &[u8]) {
        if let Some(old) = self.kv.remove(k) {
            self.journal.push((k.to_vec(), Some(old)));
        }
    }
    fn checkpoint(&self) -> usize {
        self.journal.len()
    }
    fn rollback(&mut self, cp: usize) {
        while self.journal.len() > cp {
            let (k, old) = self.journal.pop().unwrap();
            match old {
                Some(v) => {
                    self.kv.insert(k, v);
                }
                None => {
                    self.kv.remove(&k);
                }
            }
        }
    }
    fn commit(&mut self) {
        self.journal.clear();
    }

    pub fn bank_get(&self, addr: &str, denom: &str) -> u128 {
        self.kv.get(&k_bank(addr, denom)).map(|v| dec_u128(v)).unwrap_or(0)
    }
    fn bank_put(&mut self, addr: &str, denom: &str, amt: u128) {
        let k = k_bank(addr, denom);
        if amt == 0 {
            self.raw_del(&k);
        } else {
            self.raw_set(k, amt.to_be_bytes().to_vec());
        }
    }
    pub fn bank_all(&self, addr: &str) -> Vec<(String, u128)> {
        let p = k_bank_prefix(addr);
        let mut out = vec![];
        let end = prefix_end(&p);
        let it: Box<dyn Iterator<Item = (&Vec<u8>, &Vec<u8>)>> = match &end {
            Some(e) => Box::new(self.kv.range(p.clone()..e.clone())),
            None => Box::new(self.kv.range(p.clone()..)),
        };
        for (k, v) in it {
            out.push((String::from_utf8_lossy(&k[p.len()..]).to_string(), dec_u128(v)));
        }
        out
    }
    pub fn pool_get(&self, denom: &str) -> u128 {
        self.kv.get(&k_pool(denom)).map(|v| dec_u128(v)).unwrap_or(0)
    }
    pub fn meta(&self, addr: &str) -> Option<Meta> {
        self.kv.get(&k_meta(addr)).map(|b| dec_meta(b))
    }

    /// Move coins; `strict` = cosmos-sdk validity rules (non-empty, positive, no duplicate denom).
    /// Lenient = cw-multi-test 0.16 rules (zero coins filtered; empty after filtering is an error;
    /// duplicates are moved one after the other).
    fn bank_send(&mut self, from: &str, to: &str, coins: &[Coin], strict: bool) -> Result<(), String> {
        if strict {
            if coins.is_empty() {
                return Err("bank: empty coins".into());
            }
            let mut seen: Vec<&str> = vec![];
            for c in coins {
                if c.amount.is_zero() {
                    return Err(format!("bank: zero amount of {}", c.denom));
                }
                if c.denom.is_empty() {
                    return Err("bank: empty denom".into());
                }
                if seen.contains(&c.denom.as_str()) {
                    return Err(format!("bank: duplicate denom {}", c.denom));
                }
                seen.push(&c.denom);
            }
        }
        let nonzero: Vec<&Coin> = coins.iter().filter(|c| !c.amount.is_zero()).collect();
        if nonzero.is_empty() {
            return Err("bank: cannot transfer empty coins amount".into());
        }
        for c in nonzero {
            let have = self.bank_get(from, &c.denom);
            let amt = c.amount.u128();
            if have < amt {
                return Err(format!("bank: insufficient funds {} < {} {}", have, amt, c.denom));
            }
            self.bank_put(from, &c.denom, have - amt);
            let theirs = self.bank_get(to, &c.denom);
            let sum = theirs.checked_add(amt).ok_or_else(|| "bank: overflow".to_string())?;
            self.bank_put(to, &c.denom, sum);
        }
        Ok(())
    }

    fn pool_fund(&mut self, from: &str, coins: &[(String, u128)]) -> Result<(), String> {
        for (d, a) in coins {
            let have = self.bank_get(from, d);
            if have < *a {
                return Err(format!("pool: insufficient funds {} < {} {}", have, a, d));
            }
            self.bank_put(from, d, have - a);
            let p = self.pool_get(d);
            let k = k_pool(d);
            self.raw_set(k, (p + a).to_be_bytes().to_vec());
        }
        Ok(())
    }
}

pub fn dec_u128(v: &[u8]) -> u128 {
    let mut b = [0u8; 16];
    b.copy_from_slice(&v[..16]);
    u128::from_be_bytes(b)
}

// ------------------------------------------------------------------------------------------
// Storage handle handed to contract code
// ------------------------------------------------------------------------------------------

pub struct CStore {
    chain: Chain,
    prefix: Vec<u8>,
}

impl CStore {
    pub fn new(chain: &Chain, addr: &str) -> Self {
        CStore { chain: chain.clone(), prefix: k_wasm_prefix(addr) }
    }
    fn full(&self, k: &[u8]) -> Vec<u8> {
        let mut f = Vec::with_capacity(self.prefix.len() + k.len());
        f.extend_from_slice(&self.prefix);
        f.extend_from_slice(k);
        f
    }
}

impl Storage for CStore {
    fn get(&self, key: &[u8]) -> Option<Vec<u8>> {
        self.chain.0.borrow().kv.get(&self.full(key)).cloned()
    }
    fn set(&mut self, key: &[u8], value: &[u8]) {
        if value.is_empty() {
            panic!("TL;DR: Value must not be empty in Storage::set");
        }
        let k = self.full(key);
        self.chain.0.borrow_mut().raw_set(k, value.to_vec());
    }
    fn remove(&mut self, key: &[u8]) {
        let k = self.full(key);
        self.chain.0.borrow_mut().raw_del(&k);
    }
    fn range<'a>(
        &'a self,
        start: Option<&[u8]>,
        end: Option<&[u8]>,
        order: Order,
    ) -> Box<dyn Iterator<Item = Record> + 'a> {
        let lo = match start {
            Some(s) => self.full(s),
            None => self.prefix.clone(),
        };
        let hi = match end {
            Some(e) => Some(self.full(e)),
            None => prefix_end(&self.prefix),
        };
        let w = self.chain.0.borrow();
        let plen = self.prefix.len();
        let mut v: Vec<Record> = vec![];
        if let Some(h) = &hi {
            if lo >= *h {
                return Box::new(v.into_iter());
            }
        }
        let it: Box<dyn Iterator<Item = (&Vec<u8>, &Vec<u8>)>> = match hi {
            Some(h) => Box::new(w.kv.range(lo..h)),
            None => Box::new(w.kv.range(lo..)),
        };
        for (k, val) in it {
            v.push((k[plen..].to_vec(), val.clone()));
        }
        drop(w);
        if let Order::Descending = order {
            v.reverse();
        }
        Box::new(v.into_iter())
    }
}

// ------------------------------------------------------------------------------------------
// Querier
// ------------------------------------------------------------------------------------------

pub struct SimQuerier {
    chain: Chain,
}

impl Querier for SimQuerier {
    fn raw_query(&self, bin_request: &[u8]) -> QuerierResult {
        // fault injection on contract-issued queries
        {
            let mut w = self.chain.0.borrow_mut();
            if w.counting_queries {
                let j = w.query_counter;
                w.query_counter += 1;
                w.out.queries += 1;
                if w.fault.fail_query == Some(j) {
                    w.out.fault_fired = true;
                    return SystemResult::Err(SystemError::Unknown {});
                }
            }
        }
        let req: QueryRequest<Empty> = match from_slice(bin_request) {
            Ok(r) => r,
            Err(e) => {
                return SystemResult::Err(SystemError::InvalidRequest {
                    error: e.to_string(),
                    request: bin_request.into(),
                })
            }
        };
        self.chain.query(&req)
    }
}

// ------------------------------------------------------------------------------------------
// Chain API
// ------------------------------------------------------------------------------------------

impl Chain {
    pub fn new(start_ns: u64, start_height: u64, lenient_bank: bool) -> Chain {
        Chain(Rc::new(RefCell::new(World {
            kv: BTreeMap::new(),
            journal: vec![],
            height: start_height,
            time_ns: start_ns,
            next_contract: 0,
            codes: vec![],
            lenient_bank,
            fault: Fault::default(),
            msg_counter: 0,
            query_counter: 0,
            counting_queries: false,
            depth: 0,
            out: TxOut::default(),
        })))
    }

    /// A deep, independent copy of the whole world (fork probes run on these).
    pub fn fork(&self) -> Chain {
        Chain(Rc::new(RefCell::new(self.0.borrow().clone())))
    }

    pub fn store_code(&self, kind: Kind) -> u64 {
        let mut w = self.0.borrow_mut();
        w.codes.push(kind);
        w.codes.len() as u64
    }

    pub fn now_ns(&self) -> u64 {
        self.0.borrow().time_ns
    }
    pub fn height(&self) -> u64 {
        self.0.borrow().height
    }
    pub fn advance(&self, dt_ns: u64, dblocks: u64) {
        let mut w = self.0.borrow_mut();
        w.time_ns = w.time_ns.saturating_add(dt_ns);
        w.height = w.height.saturating_add(dblocks);
    }

    pub fn mint(&self, addr: &str, denom: &str, amt: u128) {
        let mut w = self.0.borrow_mut();
        let have = w.bank_get(addr, denom);
        w.bank_put(addr, denom, have + amt);
        w.commit();
    }

    /// chain-level change of a contract's admin (MsgUpdateAdmin / MsgClearAdmin signed by `sender`)
    pub fn set_admin(&self, sender: &str, contract: &str, new_admin: Option<String>) -> Result<(), String> {
        let mut w = self.0.borrow_mut();
        let Some(mut m) = w.meta(contract) else { return Err("no such contract".into()) };
        if m.admin.as_deref() != Some(sender) {
            return Err("not the admin".into());
        }
        m.admin = new_admin;
        w.raw_set(k_meta(contract), enc_meta(&m));
        w.commit();
        Ok(())
    }

    pub fn state_hash(&self) -> u64 {
        let w = self.0.borrow();
        let mut h = crate::prng::fnv1a(b"state");
        for (k, v) in w.kv.iter() {
            h = crate::prng::fnv_mix(h, &(k.len() as u32).to_be_bytes());
            h = crate::prng::fnv_mix(h, k);
            h = crate::prng::fnv_mix(h, &(v.len() as u32).to_be_bytes());
            h = crate::prng::fnv_mix(h, v);
        }
        h
    }

    pub fn kv_snapshot(&self) -> BTreeMap<Vec<u8>, Vec<u8>> {
        self.0.borrow().kv.clone()
    }

    fn env(&self, contract: &str) -> Env {
        let w = self.0.borrow();
        Env {
            block: BlockInfo {
                height: w.height,
                time: Timestamp::from_nanos(w.time_ns),
                chain_id: CHAIN_ID.to_string(),
            },
            transaction: None,
            contract: ContractInfo { address: Addr::unchecked(contract) },
        }
    }

    // ---------------------------------------------------------------- queries

    pub fn query(&self, req: &QueryRequest<Empty>) -> QuerierResult {
        match req {
            QueryRequest::Bank(BankQuery::Balance { address, denom }) => {
                let amt = self.0.borrow().bank_get(address, denom);
                let v = serde_json::json!({"amount": {"denom": denom, "amount": amt.to_string()}});
                SystemResult::Ok(ContractResult::Ok(Binary(serde_json::to_vec(&v).unwrap())))
            }
            QueryRequest::Bank(BankQuery::AllBalances { address }) => {
                let all = self.0.borrow().bank_all(address);
                let coins: Vec<serde_json::Value> = all
                    .iter()
                    .map(|(d, a)| serde_json::json!({"denom": d, "amount": a.to_string()}))
                    .collect();
                let v = serde_json::json!({ "amount": coins });
                SystemResult::Ok(ContractResult::Ok(Binary(serde_json::to_vec(&v).unwrap())))
            }
            QueryRequest::Wasm(WasmQuery::Smart { contract_addr, msg }) => {
                let Some(meta) = self.0.borrow().meta(contract_addr) else {
                    return SystemResult::Err(SystemError::NoSuchContract { addr: contract_addr.clone() });
                };
                let r = self.call_query(&meta, contract_addr, msg.as_slice());
                match r {
                    Ok(b) => SystemResult::Ok(ContractResult::Ok(b)),
                    Err(e) => SystemResult::Ok(ContractResult::Err(e)),
                }
            }
            QueryRequest::Wasm(WasmQuery::Raw { contract_addr, key }) => {
                if self.0.borrow().meta(contract_addr).is_none() {
                    return SystemResult::Err(SystemError::NoSuchContract { addr: contract_addr.clone() });
                }
                let st = CStore::new(self, contract_addr);
                let v = st.get(key.as_slice()).unwrap_or_default();
                SystemResult::Ok(ContractResult::Ok(Binary(v)))
            }
            QueryRequest::Wasm(WasmQuery::ContractInfo { contract_addr }) => {
                let Some(meta) = self.0.borrow().meta(contract_addr) else {
                    return SystemResult::Err(SystemError::NoSuchContract { addr: contract_addr.clone() });
                };
                let v = serde_json::json!({
                    "code_id": meta.code_id, "creator": meta.creator, "admin": meta.admin,
                    "pinned": false, "ibc_port": null
                });
                SystemResult::Ok(ContractResult::Ok(Binary(serde_json::to_vec(&v).unwrap())))
            }
            _ => SystemResult::Err(SystemError::UnsupportedRequest { kind: "unsupported by fzsim".into() }),
        }
    }

    /// Smart query from outside (harness): no fault counting.
    pub fn smart_query(&self, contract: &str, msg: &[u8]) -> Result<Binary, String> {
        let Some(meta) = self.0.borrow().meta(contract) else { return Err("no such contract".into()) };
        self.call_query(&meta, contract, msg)
    }

    fn call_query(&self, meta: &Meta, contract: &str, msg: &[u8]) -> Result<Binary, String> {
        let store = CStore::new(self, contract);
        let querier = SimQuerier { chain: self.clone() };
        let api = MockApi::default();
        let env = self.env(contract);
        let kind = meta.kind;
        let r = catch_unwind(AssertUnwindSafe(|| {
            let deps = cosmwasm_std::Deps {
                storage: &store,
                api: &api,
                querier: cosmwasm_std::QuerierWrapper::new(&querier),
            };
            contracts::query(kind, deps, env, msg)
        }));
        match r {
            Ok(x) => x,
            Err(p) => Err(format!("panic: {}", panic_text(&p))),
        }
    }

    // ---------------------------------------------------------------- transactions

    /// One user-signed transaction carrying one MsgExecuteContract.
    pub fn tx(&self, sender: &str, contract: &str, msg: &[u8], funds: &[Coin], fault: Fault) -> TxOut {
        {
            let mut w = self.0.borrow_mut();
            w.commit();
            w.fault = fault;
            w.msg_counter = 0;
            w.query_counter = 0;
            w.counting_queries = true;
            w.depth = 0;
            w.out = TxOut::default();
        }
        let lenient = self.0.borrow().lenient_bank;
        let r = self.execute_wasm(sender, contract, msg, funds, !lenient);
        let mut w = self.0.borrow_mut();
        w.counting_queries = false;
        w.fault = Fault::default();
        let mut out = std::mem::take(&mut w.out);
        match r {
            Ok(_) => {
                w.commit();
                out.ok = true;
            }
            Err(e) => {
                w.rollback(0);
                w.commit();
                out.ok = false;
                out.panicked = e.starts_with("panic:") || e.contains("panic:");
                out.err = e;
            }
        }
        out
    }

    /// Instantiate from outside (set-up); returns the new address.
    pub fn instantiate(
        &self,
        sender: &str,
        code_id: u64,
        msg: &[u8],
        admin: Option<String>,
    ) -> Result<String, String> {
        {
            let mut w = self.0.borrow_mut();
            w.commit();
            w.fault = Fault::default();
            w.msg_counter = 0;
            w.query_counter = 0;
            w.counting_queries = false;
            w.depth = 0;
            w.out = TxOut::default();
        }
        let r = self.instantiate_wasm(sender, code_id, msg, &[], admin);
        let mut w = self.0.borrow_mut();
        match r {
            Ok((addr, _)) => {
                w.commit();
                Ok(addr)
            }
            Err(e) => {
                w.rollback(0);
                w.commit();
                Err(e)
            }
        }
    }

    fn execute_wasm(
        &self,
        sender: &str,
        contract: &str,
        msg: &[u8],
        funds: &[Coin],
        strict_funds: bool,
    ) -> Result<Option<Binary>, String> {
        let Some(meta) = self.0.borrow().meta(contract) else {
            return Err(format!("no such contract: {contract}"));
        };
        if !funds.is_empty() {
            self.0.borrow_mut().bank_send(sender, contract, funds, strict_funds)?;
        }
        let info = MessageInfo { sender: Addr::unchecked(sender), funds: funds.to_vec() };
        let env = self.env(contract);
        let kind = meta.kind;
        let chain = self.clone();
        let r = catch_unwind(AssertUnwindSafe(|| {
            let mut store = CStore::new(&chain, contract);
            let querier = SimQuerier { chain: chain.clone() };
            let api = MockApi::default();
            let deps = cosmwasm_std::DepsMut {
                storage: &mut store,
                api: &api,
                querier: cosmwasm_std::QuerierWrapper::new(&querier),
            };
            contracts::execute(kind, deps, env, info, msg)
        }));
        let resp = match r {
            Ok(x) => x?,
            Err(p) => return Err(format!("panic: {}", panic_text(&p))),
        };
        self.process_response(contract, resp)
    }

    fn instantiate_wasm(
        &self,
        sender: &str,
        code_id: u64,
        msg: &[u8],
        funds: &[Coin],
        admin: Option<String>,
    ) -> Result<(String, Option<Binary>), String> {
        let (kind, addr) = {
            let mut w = self.0.borrow_mut();
            if code_id == 0 || code_id as usize > w.codes.len() {
                return Err(format!("no such code id {code_id}"));
            }
            let kind = w.codes[code_id as usize - 1];
            let addr = format!("contract{}", w.next_contract);
            // the counter is part of the journalled state so that a rolled back instantiate
            // does not consume an address
            w.next_contract += 1;
            let meta = Meta { kind, code_id, creator: sender.to_string(), admin };
            w.raw_set(k_meta(&addr), enc_meta(&meta));
            (kind, addr)
        };
        if !funds.is_empty() {
            self.0.borrow_mut().bank_send(sender, &addr, funds, true)?;
        }
        let info = MessageInfo { sender: Addr::unchecked(sender), funds: funds.to_vec() };
        let env = self.env(&addr);
        let chain = self.clone();
        let a2 = addr.clone();
        let r = catch_unwind(AssertUnwindSafe(|| {
            let mut store = CStore::new(&chain, &a2);
            let querier = SimQuerier { chain: chain.clone() };
            let api = MockApi::default();
            let deps = cosmwasm_std::DepsMut {
                storage: &mut store,
                api: &api,
                querier: cosmwasm_std::QuerierWrapper::new(&querier),
            };
            contracts::instantiate(kind, deps, env, info, msg)
        }));
        let resp = match r {
            Ok(x) => x,
            Err(p) => Err(format!("panic: {}", panic_text(&p))),
        };
        let resp = match resp {
            Ok(r) => r,
            Err(e) => {
                self.0.borrow_mut().next_contract -= 1;
                return Err(e);
            }
        };
        let data = self.process_response(&addr, resp)?;
        Ok((addr, data))
    }

    fn call_reply(&self, contract: &str, reply: Reply) -> Result<Response, String> {
        let Some(meta) = self.0.borrow().meta(contract) else {
            return Err(format!("no such contract: {contract}"));
        };
        let env = self.env(contract);
        let kind = meta.kind;
        let chain = self.clone();
        let r = catch_unwind(AssertUnwindSafe(|| {
            let mut store = CStore::new(&chain, contract);
            let querier = SimQuerier { chain: chain.clone() };
            let api = MockApi::default();
            let deps = cosmwasm_std::DepsMut {
                storage: &mut store,
                api: &api,
                querier: cosmwasm_std::QuerierWrapper::new(&querier),
            };
            contracts::reply(kind, deps, env, reply)
        }));
        match r {
            Ok(x) => x,
            Err(p) => Err(format!("panic: {}", panic_text(&p))),
        }
    }

    /// wasmd rules: sub-messages in order, depth first; reply_on decides whether the parent's
    /// `reply` runs; a failed sub-message is rolled back and, if the parent asked for it and its
    /// `reply` returns Ok, the error is swallowed and processing continues.
    fn process_response(&self, contract: &str, resp: Response) -> Result<Option<Binary>, String> {
        let mut data = resp.data.clone();
        for sub in resp.messages {
            let cp = self.0.borrow().checkpoint();
            self.0.borrow_mut().depth += 1;
            let r = self.dispatch(contract, sub.msg);
            self.0.borrow_mut().depth -= 1;
            match r {
                Ok(d) => {
                    if matches!(sub.reply_on, ReplyOn::Success | ReplyOn::Always) {
                        let rep = Reply {
                            id: sub.id,
                            result: SubMsgResult::Ok(SubMsgResponse { events: vec![], data: d }),
                        };
                        let rr = self.call_reply(contract, rep)?;
                        let d2 = self.process_response(contract, rr)?;
                        if d2.is_some() {
                            data = d2;
                        }
                    }
                }
                Err(e) => {
                    self.0.borrow_mut().rollback(cp);
                    if matches!(sub.reply_on, ReplyOn::Error | ReplyOn::Always) {
                        let rep = Reply { id: sub.id, result: SubMsgResult::Err(e) };
                        let rr = self.call_reply(contract, rep)?;
                        self.0.borrow_mut().out.swallowed_errors += 1;
                        let d2 = self.process_response(contract, rr)?;
                        if d2.is_some() {
                            data = d2;
                        }
                    } else {
                        return Err(e);
                    }
                }
            }
        }
        Ok(data)
    }

    fn dispatch(&self, from: &str, msg: CosmosMsg) -> Result<Option<Binary>, String> {
        let (idx, inject, depth) = {
            let mut w = self.0.borrow_mut();
            let idx = w.msg_counter;
            w.msg_counter += 1;
            let inject = w.fault.fail_msg == Some(idx);
            if inject {
                w.out.fault_fired = true;
            }
            (idx, inject, w.depth)
        };
        let (class, to, key) = classify_msg(&msg);
        self.0.borrow_mut().out.dispatched.push(Dispatch {
            idx,
            from: from.to_string(),
            class,
            to,
            key,
            depth,
        });
        if inject {
            return Err(format!("injected fault: message #{idx} failed"));
        }
        match msg {
            CosmosMsg::Bank(BankMsg::Send { to_address, amount }) => {
                self.0.borrow_mut().bank_send(from, &to_address, &amount, true)?;
                Ok(None)
            }
            CosmosMsg::Bank(_) => Err("bank: unsupported message".into()),
            CosmosMsg::Wasm(WasmMsg::Execute { contract_addr, msg, funds }) => {
                self.execute_wasm(from, &contract_addr, msg.as_slice(), &funds, true)
            }
            CosmosMsg::Wasm(WasmMsg::Instantiate { admin, code_id, msg, funds, label: _ }) => {
                let (addr, d) = self.instantiate_wasm(from, code_id, msg.as_slice(), &funds, admin)?;
                Ok(Some(Binary(proto::encode_instantiate_response(&addr, d.as_ref().map(|b| b.as_slice())))))
            }
            CosmosMsg::Wasm(WasmMsg::UpdateAdmin { contract_addr, admin }) => {
                let mut w = self.0.borrow_mut();
                let Some(mut m) = w.meta(&contract_addr) else { return Err("no such contract".into()) };
                if m.admin.as_deref() != Some(from) {
                    return Err("wasm: not the admin".into());
                }
                m.admin = Some(admin);
                w.raw_set(k_meta(&contract_addr), enc_meta(&m));
                Ok(None)
            }
            CosmosMsg::Wasm(WasmMsg::ClearAdmin { contract_addr }) => {
                let mut w = self.0.borrow_mut();
                let Some(mut m) = w.meta(&contract_addr) else { return Err("no such contract".into()) };
                if m.admin.as_deref() != Some(from) {
                    return Err("wasm: not the admin".into());
                }
                m.admin = None;
                w.raw_set(k_meta(&contract_addr), enc_meta(&m));
                Ok(None)
            }
            CosmosMsg::Wasm(_) => Err("wasm: unsupported message (migrate etc.)".into()),
            CosmosMsg::Stargate { type_url, value } => {
                if type_url != POOL_TYPE_URL {
                    return Err(format!("stargate: unsupported type url {type_url}"));
                }
                let decoded = proto::decode_fund_community_pool(value.as_slice());
                let mut rec = PoolMsg {
                    from: from.to_string(),
                    depositor: String::new(),
                    coins: vec![],
                    rejected: None,
                    typed: false,
                };
                let res = match decoded {
                    Err(e) => Err(format!("pool: malformed MsgFundCommunityPool: {e}")),
                    Ok((coins, depositor)) => {
                        rec.depositor = depositor.clone();
                        rec.coins = coins.clone();
                        check_pool_coins(&coins).and_then(|_| {
                            if depositor != from {
                                Err(format!("pool: depositor {depositor} is not the signer {from}"))
                            } else {
                                Ok(())
                            }
                        })
                    }
                };
                match res {
                    Err(e) => {
                        rec.rejected = Some(e.clone());
                        self.0.borrow_mut().out.pool_msgs.push(rec);
                        Err(e)
                    }
                    Ok(()) => {
                        let coins = rec.coins.clone();
                        let r = self.0.borrow_mut().pool_fund(from, &coins);
                        if let Err(e) = &r {
                            rec.rejected = Some(e.clone());
                        }
                        self.0.borrow_mut().out.pool_msgs.push(rec);
                        r.map(|_| None)
                    }
                }
            }
            CosmosMsg::Distribution(DistributionMsg::FundCommunityPool { amount }) => {
                let coins: Vec<(String, u128)> =
                    amount.iter().map(|c| (c.denom.clone(), c.amount.u128())).collect();
                let mut rec = PoolMsg {
                    from: from.to_string(),
                    depositor: from.to_string(),
                    coins: coins.clone(),
                    rejected: None,
                    typed: true,
                };
                let r = check_pool_coins(&coins).and_then(|_| self.0.borrow_mut().pool_fund(from, &coins));
                if let Err(e) = &r {
                    rec.rejected = Some(e.clone());
                }
                self.0.borrow_mut().out.pool_msgs.push(rec);
                r.map(|_| None)
            }
            _ => Err("unsupported message".into()),
        }
    }
}

fn check_pool_coins(coins: &[(String, u128)]) -> Result<(), String> {
    if coins.is_empty() {
        return Err("pool: empty coin list".into());
    }
    let mut seen: Vec<&str> = vec![];
    for (d, a) in coins {
        if *a == 0 {
            return Err(format!("pool: zero amount of {d}"));
        }
        if d.is_empty() {
            return Err("pool: empty denom".into());
        }
        if seen.contains(&d.as_str()) {
            return Err(format!("pool: duplicate denom {d}"));
        }
        seen.push(d);
    }
    Ok(())
}

fn first_key(msg: &[u8]) -> String {
    match serde_json::from_slice::<serde_json::Value>(msg) {
        Ok(serde_json::Value::Object(m)) => m.keys().next().cloned().unwrap_or_default(),
        _ => String::new(),
    }
}

fn classify_msg(msg: &CosmosMsg) -> (&'static str, String, String) {
    match msg {
        CosmosMsg::Bank(BankMsg::Send { to_address, .. }) => ("bank", to_address.clone(), "send".into()),
        CosmosMsg::Wasm(WasmMsg::Execute { contract_addr, msg, .. }) => {
            ("exec", contract_addr.clone(), first_key(msg.as_slice()))
        }
        CosmosMsg::Wasm(WasmMsg::Instantiate { code_id, .. }) => {
            ("instantiate", format!("code{code_id}"), String::new())
        }
        CosmosMsg::Wasm(WasmMsg::UpdateAdmin { contract_addr, .. })
        | CosmosMsg::Wasm(WasmMsg::ClearAdmin { contract_addr }) => ("admin", contract_addr.clone(), String::new()),
        CosmosMsg::Stargate { type_url, .. } => ("pool", type_url.clone(), String::new()),
        CosmosMsg::Distribution(_) => ("pool", "distribution".into(), String::new()),
        _ => ("other", String::new(), String::new()),
    }
}

fn panic_text(p: &Box<dyn std::any::Any + Send>) -> String {
    if let Some(s) = p.downcast_ref::<&str>() {
        s.to_string()
    } else if let Some(s) = p.downcast_ref::<String>() {
        s.clone()
    } else {
        "<non-string panic>".to_string()
    }
}

pub fn coin(denom: &str, amt: u128) -> Coin {
    Coin { denom: denom.to_string(), amount: Uint128::new(amt) }
}

/// helper for the harness: JSON-encode any serialisable message the way a client would
pub fn enc<T: serde::Serialize>(m: &T) -> Vec<u8> {
    to_binary(m).unwrap().0
}

thread_local! {
    static LAST_PANIC: RefCell<String> = RefCell::new(String::new());
}

/// quiet panic hook: contract panics are part of the simulated behaviour (a transaction abort), so
/// nothing is printed; the message and location are kept per thread for harness-error reports
pub fn install_panic_hook() {
    std::panic::set_hook(Box::new(|info| {
        let msg = if let Some(s) = info.payload().downcast_ref::<&str>() {
            s.to_string()
        } else if let Some(s) = info.payload().downcast_ref::<String>() {
            s.clone()
        } else {
            "<non-string panic>".to_string()
        };
        let loc = info.location().map(|l| format!("{}:{}", l.file(), l.line())).unwrap_or_default();
        if std::env::var("FZ_DEBUG").map_or(false, |v| v == "all" || (!loc.contains("/repo/") && !loc.contains(".cargo/registry"))) {
            eprintln!("panic: {msg} at {loc}");
        }
        LAST_PANIC.with(|p| *p.borrow_mut() = format!("{msg} at {loc}"));
    }));
}

pub fn last_panic() -> String {
    LAST_PANIC.with(|p| p.borrow().clone())
}
