//! Minimal hand-written protobuf codec for the two messages the simulated chain needs:
//! `MsgInstantiateContractResponse` (encode) and `cosmos.distribution.v1beta1.MsgFundCommunityPool`
//! (strict decode).  Independent of `anybuf`, which the contract uses to *build* the message.

fn put_varint(out: &mut Vec<u8>, mut v: u64) {
    loop {
        let b = (v & 0x7f) as u8;
        v >>= 7;
        if v == 0 {
            out.push(b);
            break;
        }
        out.push(b | 0x80);
    }
}

fn get_varint(buf: &[u8], pos: &mut usize) -> Result<u64, String> {
    let mut v: u64 = 0;
    let mut shift = 0u32;
    loop {
        if *pos >= buf.len() {
            return Err("truncated varint".into());
        }
        let b = buf[*pos];
        *pos += 1;
        if shift >= 64 {
            return Err("varint too long".into());
        }
        v |= ((b & 0x7f) as u64) << shift;
        if b & 0x80 == 0 {
            return Ok(v);
        }
        shift += 7;
    }
}

pub fn encode_instantiate_response(addr: &str, data: Option<&[u8]>) -> Vec<u8> {
    let mut out = vec![];
    out.push(0x0a); // field 1, wire type 2
    put_varint(&mut out, addr.len() as u64);
    out.extend_from_slice(addr.as_bytes());
    if let Some(d) = data {
        if !d.is_empty() {
            out.push(0x12); // field 2, wire type 2
            put_varint(&mut out, d.len() as u64);
            out.extend_from_slice(d);
        }
    }
    out
}

/// Read one length-delimited field; returns (field number, bytes).
fn get_ld_field<'a>(buf: &'a [u8], pos: &mut usize) -> Result<(u64, &'a [u8]), String> {
    let tag = get_varint(buf, pos)?;
    let wt = tag & 7;
    let field = tag >> 3;
    if wt != 2 {
        return Err(format!("field {field}: wire type {wt}, expected length-delimited"));
    }
    let len = get_varint(buf, pos)? as usize;
    if *pos + len > buf.len() {
        return Err(format!("field {field}: truncated"));
    }
    let s = &buf[*pos..*pos + len];
    *pos += len;
    Ok((field, s))
}

fn decode_coin(buf: &[u8]) -> Result<(String, u128), String> {
    let mut pos = 0;
    let mut denom: Option<String> = None;
    let mut amount: Option<String> = None;
    while pos < buf.len() {
        let (f, b) = get_ld_field(buf, &mut pos)?;
        let s = std::str::from_utf8(b).map_err(|_| "coin: not utf-8".to_string())?.to_string();
        match f {
            1 => {
                if denom.is_some() {
                    return Err("coin: denom given twice".into());
                }
                denom = Some(s)
            }
            2 => {
                if amount.is_some() {
                    return Err("coin: amount given twice".into());
                }
                amount = Some(s)
            }
            _ => return Err(format!("coin: unknown field {f}")),
        }
    }
    let denom = denom.ok_or("coin: no denom")?;
    let amount = amount.ok_or("coin: no amount")?;
    if amount.is_empty() || !amount.bytes().all(|c| c.is_ascii_digit()) {
        return Err(format!("coin: amount {amount:?} is not a decimal integer"));
    }
    if amount.len() > 1 && amount.starts_with('0') {
        return Err(format!("coin: amount {amount:?} has a leading zero"));
    }
    let a: u128 = amount.parse().map_err(|_| format!("coin: amount {amount} out of range"))?;
    Ok((denom, a))
}

/// MsgFundCommunityPool { repeated Coin amount = 1; string depositor = 2; }
/// Strict: unknown fields, wrong wire types, trailing garbage → error.
pub fn decode_fund_community_pool(buf: &[u8]) -> Result<(Vec<(String, u128)>, String), String> {
    let mut pos = 0;
    let mut coins = vec![];
    let mut depositor: Option<String> = None;
    while pos < buf.len() {
        let (f, b) = get_ld_field(buf, &mut pos)?;
        match f {
            1 => coins.push(decode_coin(b)?),
            2 => {
                if depositor.is_some() {
                    return Err("depositor given twice".into());
                }
                depositor =
                    Some(std::str::from_utf8(b).map_err(|_| "depositor: not utf-8".to_string())?.to_string());
            }
            _ => return Err(format!("unknown field {f}")),
        }
    }
    let depositor = depositor.ok_or("no depositor")?;
    if depositor.is_empty() {
        return Err("empty depositor".into());
    }
    Ok((coins, depositor))
}
