//! The concrete message alphabet.  Everything in a trace is concrete (ids, amounts, addresses,
//! attached coins, fault positions, clock steps), so replay and shrinking never depend on the
//! generator.

use cosmwasm_std::Coin;
use serde::{Deserialize, Serialize};
use serde_json::Value;

use crate::chain::{Chain, Fault, TxOut};
use crate::world::{u128str, Names, WorldCfg};

#[derive(Clone, Debug, Serialize, Deserialize, PartialEq)]
pub struct Fund {
    pub denom: String,
    #[serde(with = "u128str")]
    pub amount: u128,
}

#[derive(Clone, Debug, Serialize, Deserialize, PartialEq)]
#[serde(tag = "t", rename_all = "snake_case")]
pub enum Op {
    /// a transaction signed by `from` executing `msg` on contract `to`
    Tx {
        from: String,
        to: String,
        msg: Value,
        #[serde(default)]
        funds: Vec<Fund>,
        #[serde(default, skip_serializing_if = "Option::is_none")]
        fail_msg: Option<usize>,
        #[serde(default, skip_serializing_if = "Option::is_none")]
        fail_query: Option<usize>,
    },
    /// block clock moves forward (time and height are independent seams)
    Advance { dt_ns: u64, dblocks: u64 },
    /// chain-level MsgUpdateAdmin / MsgClearAdmin signed by `from`
    SetAdmin { from: String, contract: String, admin: Option<String> },
    /// a fork probe of the given kind at this point of the history (the main run is unaffected)
    Probe { kind: String, arg: u64 },
    /// the environment credits an account with coins (airdrop, staking reward, transfer from outside)
    Mint {
        to: String,
        denom: String,
        #[serde(with = "u128str")]
        amount: u128,
    },
}

impl Op {
    pub fn tx(from: &str, to: &str, msg: Value, funds: Vec<Fund>) -> Op {
        Op::Tx { from: from.to_string(), to: to.to_string(), msg, funds, fail_msg: None, fail_query: None }
    }
    pub fn is_tx(&self) -> bool {
        matches!(self, Op::Tx { .. })
    }
    pub fn short(&self) -> String {
        match self {
            Op::Tx { from, to, msg, funds, fail_msg, fail_query } => {
                let mut s = format!("{from}->{to} {}", compact(msg));
                if !funds.is_empty() {
                    let f: Vec<String> = funds.iter().map(|f| format!("{}{}", f.amount, f.denom)).collect();
                    s.push_str(&format!(" +[{}]", f.join(",")));
                }
                if let Some(i) = fail_msg {
                    s.push_str(&format!(" !fail_msg({i})"));
                }
                if let Some(i) = fail_query {
                    s.push_str(&format!(" !fail_query({i})"));
                }
                s
            }
            Op::Advance { dt_ns, dblocks } => format!("advance {}ns {}blk", dt_ns, dblocks),
            Op::SetAdmin { from, contract, admin } => format!("{from} set_admin {contract} -> {admin:?}"),
            Op::Probe { kind, arg } => format!("probe {kind}({arg})"),
            Op::Mint { to, denom, amount } => format!("mint {amount}{denom} -> {to}"),
        }
    }
}

pub fn compact(v: &Value) -> String {
    let s = v.to_string();
    if s.len() > 260 {
        format!("{}…", &s[..260])
    } else {
        s
    }
}

pub fn funds_to_coins(f: &[Fund]) -> Vec<Coin> {
    f.iter().map(|x| crate::chain::coin(&x.denom, x.amount)).collect()
}

#[derive(Clone, Debug)]
pub struct StepOut {
    pub ok: bool,
    pub err: String,
    pub tx: Option<TxOut>,
}

/// The running simulation: world + names.
pub struct Sim {
    pub cfg: WorldCfg,
    pub chain: Chain,
    pub names: Names,
}

impl Sim {
    pub fn new(cfg: &WorldCfg) -> Result<Sim, String> {
        let (chain, names) = crate::world::build(cfg)?;
        Ok(Sim { cfg: cfg.clone(), chain, names })
    }

    pub fn fork(&self) -> Sim {
        Sim { cfg: self.cfg.clone(), chain: self.chain.fork(), names: self.names.clone() }
    }

    /// Apply a non-probe op.
    pub fn apply(&self, op: &Op) -> StepOut {
        match op {
            Op::Tx { from, to, msg, funds, fail_msg, fail_query } => {
                let bytes = serde_json::to_vec(msg).unwrap();
                let out = self.chain.tx(
                    from,
                    to,
                    &bytes,
                    &funds_to_coins(funds),
                    Fault { fail_msg: *fail_msg, fail_query: *fail_query },
                );
                StepOut { ok: out.ok, err: out.err.clone(), tx: Some(out) }
            }
            Op::Advance { dt_ns, dblocks } => {
                self.chain.advance(*dt_ns, *dblocks);
                StepOut { ok: true, err: String::new(), tx: None }
            }
            Op::SetAdmin { from, contract, admin } => match self.chain.set_admin(from, contract, admin.clone()) {
                Ok(()) => StepOut { ok: true, err: String::new(), tx: None },
                Err(e) => StepOut { ok: false, err: e, tx: None },
            },
            Op::Probe { .. } => StepOut { ok: true, err: String::new(), tx: None },
            Op::Mint { to, denom, amount } => {
                let have = self.chain.0.borrow().bank_get(to, denom);
                if have.checked_add(*amount).is_some() {
                    self.chain.mint(to, denom, *amount);
                    StepOut { ok: true, err: String::new(), tx: None }
                } else {
                    StepOut { ok: false, err: "balance would not fit 128 bits".into(), tx: None }
                }
            }
        }
    }

    pub fn observe(&self) -> crate::obs::Obs {
        crate::obs::observe(&self.chain, &self.names)
    }
}
