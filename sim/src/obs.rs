//! Observation of the REAL state after every step: every listing and bucket (through the repo's
//! own public accessors on a storage view), used-id tombstones, fee item, registry, all
//! ledgers (bank, CW20 balances, NFT owners, community pool), contract admins and the clock.
//!
//! If a refactor renames the accessors used here the harness stops compiling — that is a
//! harness error (exit 2), never a property violation.

use std::collections::{BTreeMap, BTreeSet};

use cosmwasm_std::{Empty, Order};
use marketplace::state::{
    listingz, Bucket, FeeDenom, GenericBalance, Listing, Status, BUCKETS, FEE_DENOM, ROYALTY_REGISTRY,
};

use crate::chain::{dec_u128, CStore, Chain};
use crate::world::Names;

#[derive(Clone, Debug, PartialEq, Eq, PartialOrd, Ord)]
pub enum Fung {
    Native(String),
    Cw20(String),
}

impl Fung {
    pub fn label(&self) -> String {
        match self {
            Fung::Native(d) => d.clone(),
            Fung::Cw20(a) => format!("cw20:{a}"),
        }
    }
}

pub type NftId = (String, String);

#[derive(Clone, Debug, Default, PartialEq, Eq)]
pub struct Assets {
    pub fung: BTreeMap<Fung, u128>,
    pub nfts: BTreeSet<NftId>,
}

impl Assets {
    pub fn count(&self) -> usize {
        self.fung.len() + self.nfts.len()
    }
    pub fn is_empty(&self) -> bool {
        self.fung.is_empty() && self.nfts.is_empty()
    }
    pub fn collections(&self) -> BTreeSet<String> {
        self.nfts.iter().map(|(c, _)| c.clone()).collect()
    }
    pub fn get(&self, f: &Fung) -> u128 {
        self.fung.get(f).copied().unwrap_or(0)
    }
    /// self ⊎ other (amounts add, saturating — callers bound the supply)
    pub fn plus(&self, other: &Assets) -> Assets {
        let mut r = self.clone();
        for (f, a) in &other.fung {
            let e = r.fung.entry(f.clone()).or_insert(0);
            *e = e.saturating_add(*a);
        }
        for n in &other.nfts {
            r.nfts.insert(n.clone());
        }
        r
    }
    pub fn describe(&self) -> String {
        let mut parts: Vec<String> = self.fung.iter().map(|(f, a)| format!("{}{}", a, f.label())).collect();
        for (c, t) in &self.nfts {
            parts.push(format!("{c}#{t}"));
        }
        format!("[{}]", parts.join(","))
    }
}

/// Well-formedness facts about a stored vector-of-assets that the multiset view would hide.
#[derive(Clone, Debug, Default, PartialEq, Eq)]
pub struct Shape {
    pub items: usize,
    pub has_zero: bool,
    pub has_dup: bool,
}

pub fn assets_of(g: &GenericBalance) -> (Assets, Shape) {
    let mut a = Assets::default();
    let mut s = Shape { items: g.native.len() + g.cw20.len() + g.nfts.len(), ..Default::default() };
    for c in &g.native {
        if c.amount.is_zero() {
            s.has_zero = true;
        }
        let k = Fung::Native(c.denom.clone());
        if a.fung.contains_key(&k) {
            s.has_dup = true;
        }
        let e = a.fung.entry(k).or_insert(0);
        *e = e.saturating_add(c.amount.u128());
    }
    for c in &g.cw20 {
        if c.amount.is_zero() {
            s.has_zero = true;
        }
        let k = Fung::Cw20(c.address.to_string());
        if a.fung.contains_key(&k) {
            s.has_dup = true;
        }
        let e = a.fung.entry(k).or_insert(0);
        *e = e.saturating_add(c.amount.u128());
    }
    for n in &g.nfts {
        let k = (n.contract_address.to_string(), n.token_id.clone());
        if !a.nfts.insert(k) {
            s.has_dup = true;
        }
    }
    (a, s)
}

#[derive(Clone, Copy, Debug, PartialEq, Eq, PartialOrd, Ord)]
pub enum St {
    Preparing,
    Finalized,
    Sold,
}

#[derive(Clone, Debug, PartialEq)]
pub struct LRec {
    pub key_owner: String,
    pub key_id: u64,
    pub creator: String,
    pub id: u64,
    pub status: St,
    pub status_consistent: bool,
    pub finalized: Option<u64>,
    pub expiration: Option<u64>,
    pub claimant: Option<String>,
    pub wl: Option<String>,
    pub goods: Assets,
    pub goods_shape: Shape,
    pub ask: Assets,
    pub ask_shape: Shape,
    pub fee: Option<(String, u128)>,
    pub raw: Listing,
}

#[derive(Clone, Debug, PartialEq)]
pub struct BRec {
    pub key_owner: String,
    pub key_id: u64,
    pub owner: String,
    pub funds: Assets,
    pub shape: Shape,
    pub fee: Option<(String, u128)>,
    pub raw: Bucket,
}

#[derive(Clone, Debug, PartialEq, Eq)]
pub struct RegEntry {
    pub bps: u64,
    pub payout: String,
    pub last_updated: u64,
}

#[derive(Clone, Debug, PartialEq)]
pub struct Obs {
    pub listings: Vec<LRec>,
    pub buckets: Vec<BRec>,
    /// (is_usdc, last switch seconds as stored)
    pub fee_usdc: bool,
    pub fee_last: u64,
    pub registry_addr: Option<String>,
    pub registry: BTreeMap<String, RegEntry>,
    pub bank: BTreeMap<(String, String), u128>,
    pub cw20: BTreeMap<(String, String), u128>,
    pub nft_owner: BTreeMap<NftId, String>,
    pub pool: BTreeMap<String, u128>,
    pub admins: BTreeMap<String, Option<String>>,
    pub height: u64,
    pub time_ns: u64,
}

impl Obs {
    pub fn placeholder() -> Obs {
        Obs {
            listings: vec![],
            buckets: vec![],
            fee_usdc: false,
            fee_last: 0,
            registry_addr: None,
            registry: BTreeMap::new(),
            bank: BTreeMap::new(),
            cw20: BTreeMap::new(),
            nft_owner: BTreeMap::new(),
            pool: BTreeMap::new(),
            admins: BTreeMap::new(),
            height: 0,
            time_ns: 0,
        }
    }
    pub fn fee_denom(&self) -> &'static str {
        if self.fee_usdc {
            "uusdcx"
        } else {
            "ujunox"
        }
    }
    pub fn listing_by_id(&self, id: u64) -> Option<&LRec> {
        self.listings.iter().find(|l| l.id == id)
    }
    pub fn listing_at(&self, owner: &str, id: u64) -> Option<&LRec> {
        self.listings.iter().find(|l| l.key_owner == owner && l.key_id == id)
    }
    pub fn bucket_at(&self, owner: &str, id: u64) -> Option<&BRec> {
        self.buckets.iter().find(|b| b.key_owner == owner && b.key_id == id)
    }
    pub fn bucket_by_id(&self, id: u64) -> Option<&BRec> {
        self.buckets.iter().find(|b| b.key_id == id)
    }
    pub fn bal(&self, who: &str, f: &Fung) -> u128 {
        match f {
            Fung::Native(d) => self.bank.get(&(who.to_string(), d.clone())).copied().unwrap_or(0),
            Fung::Cw20(t) => self.cw20.get(&(t.clone(), who.to_string())).copied().unwrap_or(0),
        }
    }
    pub fn owner_of(&self, n: &NftId) -> Option<&String> {
        self.nft_owner.get(n)
    }
    pub fn pool_of(&self, d: &str) -> u128 {
        self.pool.get(d).copied().unwrap_or(0)
    }
    /// every fungible asset that appears anywhere in the ledgers
    pub fn all_fungibles(&self) -> BTreeSet<Fung> {
        let mut s = BTreeSet::new();
        for ((_, d), _) in &self.bank {
            s.insert(Fung::Native(d.clone()));
        }
        for ((t, _), _) in &self.cw20 {
            s.insert(Fung::Cw20(t.clone()));
        }
        s
    }
}

fn coin_pair(c: &Option<cosmwasm_std::Coin>) -> Option<(String, u128)> {
    c.as_ref().map(|c| (c.denom.clone(), c.amount.u128()))
}

pub fn lrec(key_owner: String, key_id: u64, l: Listing) -> LRec {
    let (goods, goods_shape) = assets_of(&l.for_sale);
    let (ask, ask_shape) = assets_of(&l.ask);
    LRec {
        key_owner,
        key_id,
        creator: l.creator.to_string(),
        id: l.id,
        // "sold" is judged by behaviour-relevant facts: a buyer is recorded, or the status says so
        // (an inconsistency between the two is a C12 matter, not a reason to misjudge purchases)
        status: match l.status {
            _ if l.claimant.is_some() => St::Sold,
            Status::BeingPrepared => St::Preparing,
            Status::FinalizedReady => St::Finalized,
            Status::Closed => St::Sold,
        },
        status_consistent: matches!(
            (&l.status, l.claimant.is_some()),
            (Status::BeingPrepared, false) | (Status::FinalizedReady, false) | (Status::Closed, true)
        ),
        finalized: l.finalized_time.map(|t| t.nanos()),
        expiration: l.expiration_time.map(|t| t.nanos()),
        claimant: l.claimant.as_ref().map(|a| a.to_string()),
        wl: l.whitelisted_buyer.as_ref().map(|a| a.to_string()),
        goods,
        goods_shape,
        ask,
        ask_shape,
        fee: coin_pair(&l.fee_amount),
        raw: l,
    }
}

pub fn brec(key_owner: String, key_id: u64, b: Bucket) -> BRec {
    let (funds, shape) = assets_of(&b.funds);
    BRec { key_owner, key_id, owner: b.owner.to_string(), funds, shape, fee: coin_pair(&b.fee_amount), raw: b }
}

pub fn observe(chain: &Chain, names: &Names) -> Obs {
    let mstore = CStore::new(chain, &names.market);

    let mut listings = vec![];
    for r in listingz().range(&mstore, None, None, Order::Ascending) {
        let ((owner, id), l) = r.expect("observe: listing decode");
        listings.push(lrec(owner.to_string(), id, l));
    }
    let mut buckets = vec![];
    for r in BUCKETS.range(&mstore, None, None, Order::Ascending) {
        let ((owner, id), b) = r.expect("observe: bucket decode");
        buckets.push(brec(owner.to_string(), id, b));
    }
    let (fee_usdc, fee_last) = match FEE_DENOM.load(&mstore).expect("observe: fee item") {
        FeeDenom::JUNO(t) => (false, t),
        FeeDenom::USDC(t) => (true, t),
    };
    let registry_addr = ROYALTY_REGISTRY.may_load(&mstore).expect("observe: registry item").flatten().map(|a| a.to_string());

    let mut registry = BTreeMap::new();
    {
        let rstore = CStore::new(chain, &names.registry);
        for r in royalty::state::REGISTRY.range(&rstore, None, None, Order::Ascending) {
            let (k, v) = r.expect("observe: registry decode");
            registry.insert(
                k.to_string(),
                RegEntry { bps: v.bps, payout: v.payout_addr.to_string(), last_updated: v.last_updated },
            );
        }
    }

    let mut bank = BTreeMap::new();
    let mut pool = BTreeMap::new();
    let mut admins = BTreeMap::new();
    {
        let w = chain.0.borrow();
        for (k, v) in w.kv.range(vec![b'b']..vec![b'c']) {
            let alen = k[1] as usize;
            let addr = String::from_utf8_lossy(&k[2..2 + alen]).to_string();
            let denom = String::from_utf8_lossy(&k[2 + alen..]).to_string();
            bank.insert((addr, denom), dec_u128(v));
        }
        for (k, v) in w.kv.range(vec![b'p']..vec![b'q']) {
            pool.insert(String::from_utf8_lossy(&k[1..]).to_string(), dec_u128(v));
        }
        for (k, v) in w.kv.range(vec![b'm']..vec![b'n']) {
            let addr = String::from_utf8_lossy(&k[1..]).to_string();
            let m: serde_json::Value = serde_json::from_slice(v).expect("observe: meta");
            admins.insert(addr, m["admin"].as_str().map(|s| s.to_string()));
        }
    }

    let mut cw20 = BTreeMap::new();
    for (i, t) in names.cw20s.iter().enumerate() {
        if names.sloppy20[i] {
            continue;
        }
        let st = CStore::new(chain, t);
        for r in cw20_base::state::BALANCES.range(&st, None, None, Order::Ascending) {
            let (a, v) = r.expect("observe: cw20 balance decode");
            if !v.is_zero() {
                cw20.insert((t.clone(), a.to_string()), v.u128());
            }
        }
    }
    let mut nft_owner = BTreeMap::new();
    for (i, c) in names.colls.iter().enumerate() {
        if names.sloppy[i] {
            continue;
        }
        let st = CStore::new(chain, c);
        let tract = cw721_base::Cw721Contract::<cw721_base::Extension, Empty, Empty, Empty>::default();
        for r in tract.tokens.range(&st, None, None, Order::Ascending) {
            let (tid, info) = r.expect("observe: nft decode");
            nft_owner.insert((c.clone(), tid), info.owner.to_string());
        }
    }
    let (height, time_ns) = {
        let w = chain.0.borrow();
        (w.height, w.time_ns)
    };

    Obs {
        listings,
        buckets,
        fee_usdc,
        fee_last,
        registry_addr,
        registry,
        bank,
        cw20,
        nft_owner,
        pool,
        admins,
        height,
        time_ns,
    }
}
