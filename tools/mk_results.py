#!/usr/bin/env python3
"""Builds DESIGN.md §10.5–10.7 from the outputs of tools/sensitivity.sh (files given on the command line,
lines of the form `<name>: CAUGHT|MISSED <tests> expected[..] caught[ C01(rule) .. ]`) and from
seeded/*/meta.json, and replaces the block between the RESULTS markers in DESIGN.md."""
import re, sys, json, glob, os, subprocess
rows = {}
for f in sys.argv[1:]:
    r2 = '_r2_' in f
    for l in open(f):
        m = re.match(r'([A-Za-z0-9_\-]+): (\w+) (\S+) expected\[(.*?)\] caught\[(.*?)\]', l)
        if not m: continue
        name = m.group(1) + ('2' if r2 and re.match(r'C\d\d-[ABC]$', m.group(1)) else '')  # files named *_r2_* come from /tmp/seeded2
        rows[name] = dict(status=m.group(2), suite=m.group(3), expected=m.group(4).split(), caught=m.group(5).split())
def desc(path):
    for l in open(path):
        if l.startswith('# ') and not l.startswith('# expect'): return l[2:].strip()
    return ''
out = []
out.append('### 10.5 Sensitivity: own mutant suite (`tools/mutants/`, all 18 quick checks each)\n')
out.append('Every mutant compiles; "suite" says whether the repository\'s own 30 tests still pass with it (a mutant the suite already\nrejects is still useful as a sensitivity probe, but the interesting ones are those it lets through).\n')
out.append('| mutant | what it does | suite | checks that report it (first rule) |\n|---|---|---|---|')
for p in sorted(glob.glob('tools/mutants/*.patch')):
    n = os.path.basename(p)[:-6]; r = rows.get(n)
    if not r: out.append(f'| {n} | {desc(p)} | ? | not run |'); continue
    out.append(f"| {n} | {desc(p)} | {r['suite'].replace('suite:','')} | {' '.join(r['caught']) or '**none**'} |")
own = [rows[os.path.basename(p)[:-6]] for p in glob.glob('tools/mutants/*.patch') if os.path.basename(p)[:-6] in rows]
out.append(f"\n{sum(1 for r in own if r['caught'])} of {len(own)} mutants are reported by at least one check; "
           f"{sum(1 for r in own if all(any(c.startswith(e+'(') for c in r['caught']) for e in r['expected']))} by every check named in their `# expect:` header "
           "(three headers over-claimed in the first matrix and were corrected afterwards: m09 only leaves the status *field* stale — the swap, the buyer and every later refusal are correct, so C03 / C08 rightly stay silent and C12 / C16 / C07 report the inconsistent record; m25 lets anyone *trigger* a withdrawal but the assets still go to the buyer, so C05 rightly stays silent; m34 cannot reduce an amount to zero within the registry's 300 bps cap, so C12 stays silent). After the last engine changes all 40 were re-run against the checks of their headers (`tools/recheck_expected.sh`, `tools/results/recheck.txt`): 40 of 40 reported.\n")
out.append('### 10.6 Specificity: behaviour-preserving refactors (`tools/refactors/`)\n')
out.append('| refactor | what it does | checks that report it |\n|---|---|---|')
for p in sorted(glob.glob('tools/refactors/*.patch')):
    n = os.path.basename(p)[:-6]; r = rows.get(n)
    d = desc(p).replace('behaviour-preserving refactor — every check must stay silent: ', '')
    out.append(f"| {n} | {d} | {'not run' if not r else (' '.join(r['caught']) or 'none (all 18 checks exit 0)')} |")
out.append('\n### 10.7 Independent seeded changes (`seeded/<id>/`)\n')
out.append('Produced by sub-agents that were given one property\'s text and a scratch worktree only (round 1: two changes per property, ids `Cxx-A/B`;\nround 2: three per property, ids `Cxx-A2/B2/C2`, told which mechanisms had already been tried and asked for harder ones;\nround 3: three more for C01, C02, C03, C05, C06, C07, C10, C12 and C14, ids `Cxx-A3/B3/C3`, additionally told which *kinds* of change had proved easy).\nRound 1 was run against all 18 checks, round 2 against the property\'s own check and three neighbours; all at a quarter of the quick budgets. Every change was confirmed\nwith `tools/confirm_seed.sh` (suite 30/30 with the patch, demonstration fails with it and passes without) before it was kept.\n"own check" = reported by the check of the property the change was written against.\n')
out.append('| id | needs, in order to manifest | own check | all checks that report it |\n|---|---|---|---|')
metas = sorted(glob.glob('seeded/*/meta.json'))
n_own = 0
for mf in metas:
    m = json.load(open(mf)); n = m['id']; r = rows.get(n)
    caught = r['caught'] if r else m.get('caught_by', [])
    ownc = any(c.startswith(m['breaks_property'] + '(') for c in caught); n_own += ownc
    m['caught_by'] = caught; m['caught_by_own_property_check'] = ownc; m['status'] = 'CAUGHT' if caught else 'MISSED'
    json.dump(m, open(mf, 'w'), indent=1)
    out.append(f"| {n} | {m['needs_to_manifest']} | {'yes' if ownc else 'no'} | {' '.join(caught) or '**none**'} |")
n_caught = sum(1 for mf in metas if json.load(open(mf))['caught_by'])
out.append(f"\n{len(metas)} seeded changes, {n_caught} reported by at least one check, {n_own} by the check of their own property. "
           "**Not detected: C12-B3** (a top-up that overflows u128 is stored as a second entry instead of aborting): it needs one asset of one record to exceed u128::MAX, so the market's own bank balance of that "
           "denomination would have to exceed 2^128. The bank stub keeps balances in 128 bits (as cosmwasm's `Coin` does); an attempt with an environment `mint` op and a directed prelude showed the second deposit being refused "
           "by the chain before the contract runs. The change is outside what the simulated chain can represent — recorded as a miss, not argued away. "
           "The exceptions: C05-B (receive hooks accept coins forwarded by a token-shaped contract) cannot manifest in C05's honest-token worlds by construction; "
           "it is reported by C19 (`coins_kept`) and C18 (`victim_altered … +coins`, a signature outside the known findings). C04-B (id re-use through the CW721 bucket path, then a purchase that overwrites the seller's bucket) "
           "was reported by C01 / C03 / C07 / C09 in this matrix; rule `C04.foreign_bucket_destroyed` was added afterwards (C18-B2 / C18-C2 exercise it).\n")
out.append('**How to read this table.** It says what the *final* checks report, at a quarter of their quick budgets. It is not a blind detection rate: round 1 was run blind except for C12-A, C12-B and C13-A (whose descriptions made the gap obvious, so the checks were extended before their first run); in rounds 2 and 3 the generator or a rule was usually extended on reading the agent\'s description of what the change needs, before the first run against it. What the exercise measures is therefore mostly *which classes of history, input and account the simulator had not been producing* — each round found some, listed below — and, after the extension, that the oracles do fire on them. C12-B3 is the one change for which no extension within the simulator\'s bounds was found.\n')
out.append('Changes the first versions of the checks missed (or would have missed), and what was strengthened because of them:\n')
out.append('''* C13-A (sub-second early cycle) — the model judged elapsed time in whole seconds; refusal is now judged on nanoseconds since the last switch (§10.1).
* C12-A (same NFT twice with another token in between) — malformed asks now carry duplicates at any position in lists of 2–4 entries.
* C12-B (zero-amount CW20 deposit accepted by the market itself) — needs a token that does not refuse zero itself: sloppy CW20 stub added to C12 worlds.
* C13-B (carried fee converted into the new denomination) — was reported by C01/C06/C07/C10 but not by C13: rule `C13.recorded_fee_changed` and a directed prelude (fee recorded → switch → proceeds bucket buys again).
* C16-A (exclusive index bound) / C19-A (due FeeCycle with coins) / C19-B (several denominations through a contract) — caught at first try, but only by luck of the schedule; the probes now fork the clock to the instants around an expiration and past the week mark, and forward 1, 2 and 3 denominations.
* round 2, C02-A2 (identifier concatenation), C02-B2 (fee overflow above u128::MAX/5), C02-C2 / C06-A2 (NFT-only paying side, partly overlapping royalty sets) — new generator intents: confusable NFT / fungible identifiers, amounts up to 2^126, NFT-only royalty stacks, overlapping collection sets on both sides.
* round 2, C12-A2 (cap compared in 8 bits) — asks with 255…65539 items; C14-A2/B2 — rates that look legal after truncation to 8/16/32 bits, senders differing from the admin in letter case only; C16-A2/C2 — whitelist queries for every valid-address string found in the raw whitelist index, owners with > 256 reserved listings; C16-B2 — `C16.fee_denom` also judged at every purchase.
* round 2, C03-A2/B2 — rules `C03.delivered_at_swap` and `C03.claim_lost`; C04-A2/B2/C2 — rules `C04.invalid_purchase`, `C04.registry_hijack`, `C04.registry_admin`.
* round 3, C10-C3 (withdrawals by contract accounts skip the fee) — every trader used to be an externally owned account; a *contract account* (the forwarding stub used as a smart wallet) now takes part in a quarter of the General / Flipper / CycleHeavy / Faulty worlds like any user, its forwarded messages are judged like anybody's.
* round 3, C03-A3 (balances swapped in a same-collection NFT-for-NFT trade) — first reported by C06 only; rule: NFTs must carry over exactly at the swap (`C03.half_swap`); C03-C3 — a refused claim of a purchase entitlement is `C03.claim_refused`; C14-A3/B3/C3 — a contract naming itself as collection, Register repeating the stored values, batched lookups of 51–80 entries.
* round 3, C05-A3 — a denomination that differs from another only in letter case; C05-C3 — rule `C05.collateral_record_change`. The other seven round-3 changes were reported at the first try by intents added after round 2 (confusable fungible names, large overlapping royalty sets, traders as payout addresses, fee recorded before a cycle).
* round 2, C07-C2 (payout re-validates the 25-asset cap) — worlds with 28–32 native denominations and records created with 26+ coins; C08-A2 — lifetimes `k·2^32 + r`; C08-C2 — asks naming an NFT the listing itself holds.
* round 2, C09-A2/C2 (sharded / range-compressed id registries) — the harness no longer reads the contract's tombstone maps (the change would otherwise have been a build failure of the harness, exit 2, not a detection); ids congruent in their low bits, out-of-order small ids.
* round 2, C11-A2/B2/C2 — 21–25 collections at 200–250 bps, payout addresses equal to a trading party, fungibles on one side only; C13-A2/C2 — blocks racing ahead of time, quiet periods of several weeks; C15-C2 — payout addresses that are contracts; C19-A2/B2/C2 — coin amounts at the edges of 64- and 128-bit counters, zero-amount hooks with coins.
''')
text = '\n'.join(out)
d = open('DESIGN.md').read()
if 'RESULTS_PLACEHOLDER' in d:
    d = d.replace('RESULTS_PLACEHOLDER', '<!-- RESULTS:BEGIN -->\n' + text + '\n<!-- RESULTS:END -->')
else:
    d = re.sub(r'<!-- RESULTS:BEGIN -->.*<!-- RESULTS:END -->', lambda m: '<!-- RESULTS:BEGIN -->\n' + text + '\n<!-- RESULTS:END -->', d, flags=re.S)
open('DESIGN.md', 'w').write(d)
print(f'{len(rows)} result rows, {len(metas)} seeds, own-check {n_own}')
