#!/bin/sh
# Regenerate /verif/findings/*.json: each repair of a genuine defect is reverted in a scratch worktree
# (never in /repo), the check that found the defect is run with the current engine, and its minimised
# replay file is copied to findings/.  The files document the defects as found on the unrepaired tree;
# on the repaired tree they do not reproduce (./fz replay prints "not reproduced").
cd "$(dirname "$0")/.." || exit 2
VERIF=$(pwd); BASE=/tmp/fzmut/regen; WT=$BASE/repo
mkdir -p "$BASE/sim" "$BASE/root"
[ -d "$WT" ] || git -C /repo worktree add --detach "$WT" HEAD -q || exit 2
sed "s|/repo/|$WT/|g" sim/Cargo.toml > "$BASE/sim/Cargo.toml"; cp sim/Cargo.lock "$BASE/sim/"; rm -rf "$BASE/sim/src"; ln -s "$VERIF/sim/src" "$BASE/sim/src"
one() { # patch, check id, output name
    git -C "$WT" checkout -q -- .; git -C "$WT" apply "$VERIF/$1" || exit 2
    (cd "$BASE/sim" && CARGO_NET_OFFLINE=true cargo build --release --offline) > "$BASE/build.log" 2>&1 || { echo "build failed"; exit 2; }
    rm -rf "$BASE/root/replays"; cp known_findings.json "$BASE/root/"
    out=$(cd "$BASE/root" && "$BASE/sim/target/release/fzsim" check "$2" quick 2>&1)
    f=$(echo "$out" | sed -n 's/^VIOLATION property=[A-Z0-9]* replay=//p')
    if [ -n "$f" ]; then cp "$BASE/root/$f" "findings/$3.json"; echo "$3: $(echo "$out" | grep '^violation' | cut -c1-200)"; else echo "$3: NOT FOUND"; fi
}
one tools/mutants/r1_revert_fix_4e93dfd.patch C01 F1-C01-bucket-reuse
one tools/mutants/r1_revert_fix_4e93dfd.patch C10 F1-C10-fee-lost
one tools/mutants/r1_revert_fix_4e93dfd.patch C07 F1-C07-residue
one tools/mutants/r2_revert_fix_b9cafb4.patch C16 F2-C16-page-13
one tools/mutants/r3_revert_fix_8c1f61c.patch C16 F4-C16-next-change
one tools/mutants/r4_revert_fix_06e6c37.patch C16 F3-C16-expired-still-listed
one tools/mutants/r5_revert_fix_0b1b8d7.patch C19 F5-C19-coins-kept
git -C "$WT" checkout -q -- .; git -C /repo worktree remove --force "$WT"; rm -rf "$BASE"
