#!/bin/sh
# Sensitivity of the checks: every patch under tools/mutants/ (or the patch files given) is applied to a
# scratch worktree of /repo OUTSIDE /repo and /verif, the simulator is built against that worktree through
# a generated manifest with substituted paths, and every check is run.  Reports which checks raise a
# VIOLATION, compares with the "# expect:" header of the patch, and (with TESTS=1) whether the repository's
# own test suite still passes with the patch.  /repo itself is never modified.
#   budget: FZ_RUNS_DIV=n runs 1/n of each quick budget (the tables in DESIGN.md were produced with n=4 — a harder test than the shipped budget)
#   usage: tools/sensitivity.sh [-s slot] [patch ...]      env: CHECKS="C01 C02" TIER=quick TESTS=1 KEEP=1
cd "$(dirname "$0")/.." || exit 2
VERIF=$(pwd)
SLOT=s0
if [ "$1" = "-s" ]; then SLOT=$2; shift 2; fi
BASE=/tmp/fzmut/$SLOT
WT=$BASE/repo
mkdir -p "$BASE/sim" "$BASE/root"
if [ ! -d "$WT" ]; then git -C /repo worktree add --detach "$WT" HEAD -q || exit 2; fi
git -C "$WT" checkout -q --detach "$(git -C /repo rev-parse HEAD)" && git -C "$WT" checkout -q -- . && git -C "$WT" clean -fdq -e target
sed "s|/repo/|$WT/|g" sim/Cargo.toml > "$BASE/sim/Cargo.toml"
cp sim/Cargo.lock "$BASE/sim/Cargo.lock"
rm -rf "$BASE/sim/src"; ln -s "$VERIF/sim/src" "$BASE/sim/src"
CHECKS="${CHECKS:-C01 C02 C03 C04 C05 C06 C07 C08 C09 C10 C11 C12 C13 C14 C15 C16 C18 C19}"
TIER="${TIER:-quick}"
[ $# -eq 0 ] && set -- tools/mutants/*.patch
rc=0
for P in "$@"; do
    name=$(basename "$P" .patch); case "$P" in seeded/*/patch.diff|*/seeded/*/patch.diff) name=$(basename "$(dirname "$P")");; */patch.diff) name=$(basename "$(dirname "$(dirname "$P")")")-$(basename "$(dirname "$P")");; esac
    expect=$(sed -n 's/^# expect: *//p' "$P" | head -1)
    git -C "$WT" checkout -q -- . && git -C "$WT" clean -fdq -e target
    if ! git -C "$WT" apply "$VERIF/$P" 2>/dev/null && ! git -C "$WT" apply "$P" 2>/dev/null; then echo "$name: PATCH DOES NOT APPLY"; rc=2; continue; fi
    tests="-"
    if [ -n "$TESTS" ]; then
        if (cd "$WT" && CARGO_NET_OFFLINE=true cargo test --workspace --no-fail-fast --offline) > "$BASE/test.log" 2>&1; then
            tests="suite:$(grep -E '^test result' "$BASE/test.log" | awk '{s+=$4} END {print s}')pass"
        else
            tests="suite:FAILS"
        fi
    fi
    if ! (cd "$BASE/sim" && CARGO_NET_OFFLINE=true cargo build --release --offline) > "$BASE/build.log" 2>&1; then
        echo "$name: $tests sim does not build (harness error)"; grep -E '^error' -A 8 "$BASE/build.log" | head -20; rc=2; continue
    fi
    caught=""
    cp "$VERIF/known_findings.json" "$BASE/root/"
    for id in $CHECKS; do
        out=$(cd "$BASE/root" && "$BASE/sim/target/release/fzsim" check "$id" "$TIER" 2>&1); code=$?
        if [ $code -eq 1 ]; then
            rule=$(echo "$out" | sed -n 's/^violation: \([A-Za-z0-9_.]*\).*/\1/p' | head -1)
            caught="$caught $id($rule)"
        elif [ $code -ne 0 ]; then caught="$caught $id(HARNESS-ERROR)"; fi
    done
    miss=""
    for e in $expect; do case "$caught" in *" $e("*) ;; *) miss="$miss $e";; esac; done
    status=CAUGHT; [ -z "$caught" ] && status=MISSED
    echo "$name: $status $tests expected[$expect] caught[$caught ]${miss:+ NOT-CAUGHT-BY[$miss ]}"
done
git -C "$WT" checkout -q -- . && git -C "$WT" clean -fdq -e target
if [ -z "$KEEP" ]; then git -C /repo worktree remove --force "$WT"; rm -rf "$BASE"; fi
exit $rc
