#!/bin/sh
# Confirm a seeded change: in a scratch worktree of /repo (outside /repo and /verif)
#   (a) the patch applies and the repository's own suite still passes (30 tests),
#   (b) the demonstration test fails with the patch,
#   (c) the demonstration test passes without it.
# usage: tools/confirm_seed.sh <dir with patch.diff and demo.rs> [slot]
D=$(cd "$1" && pwd); SLOT=${2:-c0}
WT=/tmp/fzconfirm/$SLOT
[ -d "$WT" ] || git -C /repo worktree add --detach "$WT" HEAD -q || exit 2
git -C "$WT" checkout -q --detach "$(git -C /repo rev-parse HEAD)"; git -C "$WT" checkout -q -- .; git -C "$WT" clean -fdq -e target
export CARGO_NET_OFFLINE=true
git -C "$WT" apply "$D/patch.diff" || { echo "$D: patch does not apply"; exit 1; }
(cd "$WT" && cargo test --workspace --no-fail-fast --offline) > "$WT/../$SLOT.suite.log" 2>&1; a=$?
pass=$(grep -E '^test result' "$WT/../$SLOT.suite.log" | awk '{s+=$4} END {print s}')
if grep -qE 'crate::|super::' "$D/demo.rs"; then
    # the demonstration is a module to be appended to the crate's own test file
    IT="$WT/contracts/marketplace/src/integration_tests.rs"; MOD=$(sed -n 's/^\(pub \)\{0,1\}mod \([a-z0-9_]*\).*/\2/p' "$D/demo.rs" | head -1)
    cat "$D/demo.rs" >> "$IT"
    (cd "$WT" && cargo test -p marketplace --offline "$MOD") > "$WT/../$SLOT.with.log" 2>&1; b=$?
    grep -q "test result: FAILED" "$WT/../$SLOT.with.log" || b=0
    git -C "$WT" checkout -q -- .; cat "$D/demo.rs" >> "$IT"
    (cd "$WT" && cargo test -p marketplace --offline "$MOD") > "$WT/../$SLOT.without.log" 2>&1; c=$?
    grep -qE "test result: ok. [1-9]" "$WT/../$SLOT.without.log" || c=1
    git -C "$WT" checkout -q -- .
else
mkdir -p "$WT/contracts/marketplace/tests"; cp "$D/demo.rs" "$WT/contracts/marketplace/tests/seed_demo.rs"
(cd "$WT" && cargo test -p marketplace --test seed_demo --offline) > "$WT/../$SLOT.with.log" 2>&1; b=$?
git -C "$WT" checkout -q -- .
(cd "$WT" && cargo test -p marketplace --test seed_demo --offline) > "$WT/../$SLOT.without.log" 2>&1; c=$?
rm -f "$WT/contracts/marketplace/tests/seed_demo.rs"; rmdir "$WT/contracts/marketplace/tests" 2>/dev/null
fi
ok=CONFIRMED; { [ $a -eq 0 ] && [ "$pass" = 30 ] && [ $b -ne 0 ] && [ $c -eq 0 ]; } || ok=NOT-CONFIRMED
echo "$D: $ok suite_exit=$a suite_pass=$pass demo_with_patch_exit=$b demo_without_patch_exit=$c"
grep -E "^test .* FAILED|panicked at" "$WT/../$SLOT.with.log" | head -3
