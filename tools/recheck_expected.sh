#!/bin/sh
# Fast regression of the sensitivity results after an engine change: every patch of tools/mutants/ is run
# against the checks named in its "# expect:" header only (quarter budget).  Full matrices: tools/sensitivity.sh.
#   usage: tools/recheck_expected.sh [slot] > tools/results/recheck.txt
cd "$(dirname "$0")/.." || exit 2
SLOT=${1:-s1}
for P in tools/mutants/*.patch; do
    E=$(sed -n 's/^# expect: *//p' "$P" | head -1)
    CHECKS="$E" FZ_RUNS_DIV=4 KEEP=1 tools/sensitivity.sh -s "$SLOT" "$P"
done
