#!/bin/sh
# Robustness over seeds: the quick tier of every check for VERIF_SEED = FROM..TO.  On the (repaired)
# unchanged tree every check must exit 0 for every seed, and every named reach probe must be hit
# (a "reach:" line on stderr names the ones that were not).  A failure here means the workload or
# the budget changes, never the oracle.
#   usage: tools/reach.sh [from] [to]
cd "$(dirname "$0")/.." || exit 2
FROM=${1:-1}; TO=${2:-20}
./fz build || exit 2
bad=0
for seed in $(seq "$FROM" "$TO"); do
    for id in C01 C02 C03 C04 C05 C06 C07 C08 C09 C10 C11 C12 C13 C14 C15 C16 C18 C19; do
        out=$(VERIF_SEED=$seed sim/target/release/fzsim check "$id" quick 2>&1); code=$?
        r=$(echo "$out" | grep '^reach:')
        if [ $code -ne 0 ] || [ -n "$r" ]; then bad=$((bad+1)); echo "seed $seed $id exit=$code $r $(echo "$out" | grep -E '^(violation|HARNESS)' | cut -c1-300)"; fi
    done
    echo "seed $seed done"
done
echo "reach: seeds $FROM..$TO, problems: $bad"
[ $bad -eq 0 ]
