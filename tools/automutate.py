#!/usr/bin/env python3
"""Systematic sensitivity sweep: mechanical mutants of the contracts (relational operators, boolean
connectives, integer literals, dropped early returns) are applied one at a time to a scratch worktree
outside /repo, the simulator is built against it and the quick checks are run (reduced budget) until one
reports a violation.  Survivors are listed for triage (equivalent mutant, property not affected, or a
blind spot of the checks).   usage: tools/automutate.py <slot> <shard i> <of n> [FZ_RUNS]"""
import re, sys, os, subprocess, json
slot, shard, nshards = sys.argv[1], int(sys.argv[2]), int(sys.argv[3])
runs = sys.argv[4] if len(sys.argv) > 4 else '1500'
VERIF = os.path.dirname(os.path.dirname(os.path.abspath(__file__)))
BASE = f'/tmp/fzmut/{slot}'; WT = f'{BASE}/repo'
def sh(c, **kw): return subprocess.run(c, shell=True, text=True, capture_output=True, **kw)
os.makedirs(f'{BASE}/sim', exist_ok=True); os.makedirs(f'{BASE}/root', exist_ok=True)
if not os.path.isdir(WT): sh(f'git -C /repo worktree add --detach {WT} HEAD')
sh(f'git -C {WT} checkout -q -- .')
open(f'{BASE}/sim/Cargo.toml', 'w').write(open(f'{VERIF}/sim/Cargo.toml').read().replace('/repo/', WT + '/'))
sh(f'cp {VERIF}/sim/Cargo.lock {BASE}/sim/; rm -rf {BASE}/sim/src; ln -s {VERIF}/sim/src {BASE}/sim/src; cp {VERIF}/known_findings.json {BASE}/root/')
FILES = ['contracts/marketplace/src/execute.rs', 'contracts/marketplace/src/contract.rs', 'contracts/marketplace/src/state.rs',
         'contracts/marketplace/src/utils.rs', 'contracts/marketplace/src/query.rs', 'contracts/marketplace/src/msg.rs',
         'contracts/royalty/src/contract.rs']
OPS = [(r' >= ', ' > '), (r' > ', ' >= '), (r' <= ', ' < '), (r' < ', ' <= '), (r' == ', ' != '), (r' != ', ' == '),
       (r' && ', ' || '), (r' \|\| ', ' && ')]
muts = []
for f in FILES:
    src = open(f'/repo/{f}').read().split('\n')
    in_tests = False
    for ln, line in enumerate(src):
        if '#[cfg(test)]' in line: in_tests = True
        if in_tests: continue
        code = line.split('//')[0]
        if not code.strip() or code.strip().startswith(('use ', 'pub use ', '#[', '///')): continue
        for pat, rep in OPS:
            for m in re.finditer(pat, code):
                # skip generics / arrows / closures that merely look like operators
                if code[max(0, m.start() - 1):m.start() + 3] in ('->', '=>'): continue
                muts.append((f, ln, m.start(), m.end(), rep, f'{pat.strip()} -> {rep.strip()}'))
        for m in re.finditer(r'(?<![\w.])(\d[\d_]*)(?:u128|u64|u32|u8|usize)?(?![\w.])', code):
            v = m.group(1).replace('_', '')
            if not v.isdigit() or 'const CONTRACT' in code: continue
            n = int(v)
            if n in (0, 1) and ('len()' not in code and 'checked' not in code): continue
            muts.append((f, ln, m.start(1), m.end(1), str(n + 1), f'{n} -> {n+1}'))
            if n > 0: muts.append((f, ln, m.start(1), m.end(1), str(n - 1), f'{n} -> {n-1}'))
        if re.search(r'^\s*return Err\(', code):
            muts.append((f, ln, None, None, None, 'early return dropped'))
muts = [m for i, m in enumerate(muts) if i % nshards == shard]
CHECKS = 'C01 C02 C03 C04 C05 C06 C07 C08 C09 C10 C11 C12 C13 C14 C15 C16 C18 C19'.split()
PRI = {'query.rs': ['C16'], 'royalty/src/contract.rs': ['C14', 'C06', 'C11'], 'msg.rs': ['C12'], 'utils.rs': ['C06', 'C09', 'C05'],
       'state.rs': ['C02', 'C06', 'C11', 'C12', 'C10', 'C05'], 'contract.rs': ['C13', 'C19', 'C04'], 'execute.rs': ['C02', 'C03', 'C08', 'C09', 'C12', 'C05']}
out = open(f'{VERIF}/tools/results/automutate.{slot}.txt', 'a')
for (f, ln, a, b, rep, what) in muts:
    sh(f'git -C {WT} checkout -q -- .')
    path = f'{WT}/{f}'; lines = open(path).read().split('\n'); orig = lines[ln]
    if rep is None:
        # replace `return Err(...)` block start by a no-op when it is a single statement on one line or opens a multi-line call
        if orig.rstrip().endswith(';'):
            lines[ln] = re.sub(r'return Err\(.*\);', '{}', orig)
        else:
            continue
    else:
        lines[ln] = orig[:a] + rep + orig[b:]
    open(path, 'w').write('\n'.join(lines))
    tag = f'{f}:{ln+1} [{what}] `{orig.strip()[:90]}`'
    r = sh(f'cd {BASE}/sim && CARGO_NET_OFFLINE=true cargo build --release --offline')
    if r.returncode != 0:
        out.write(f'NOBUILD {tag}\n'); out.flush(); continue
    pri = next((v for k, v in PRI.items() if f.endswith(k)), [])
    order = pri + [c for c in CHECKS if c not in pri]
    caught = None
    for c in order:
        r = sh(f'cd {BASE}/root && FZ_RUNS={runs} {BASE}/sim/target/release/fzsim check {c} quick')
        if r.returncode == 1:
            rule = re.search(r'^violation: (\S+)', r.stdout, re.M)
            caught = f'{c}({rule.group(1) if rule else "?"})'; break
        if r.returncode not in (0, 1):
            caught = f'{c}(HARNESS-ERROR)'; break
    out.write(f'{"KILLED " + caught if caught else "SURVIVED"} {tag}\n'); out.flush()
sh(f'git -C {WT} checkout -q -- .')
print('done', slot, len(muts))
