#!/bin/sh
# Determinism proof: for every property, N runs are executed in separate processes, twice each,
# at 1, 4 and 16 workers; the per-run event-log hashes (every op, outcome and post-state hash)
# must be byte-identical across all six executions.
N="${1:-48}"
BIN=sim/target/release/fzsim
TMP=$(mktemp -d)
rc=0
for id in C01 C02 C03 C04 C05 C06 C07 C08 C09 C10 C11 C12 C13 C14 C15 C16 C18 C19; do
    for w in 1 4 16; do
        for rep in a b; do
            FZ_WORKERS=$w "$BIN" hashes "$id" "$N" > "$TMP/$id.$w.$rep" &
        done
    done
    wait
    for f in "$TMP/$id".*; do
        if ! cmp -s "$TMP/$id.1.a" "$f"; then
            echo "NON-DETERMINISTIC: $id: $(basename "$f") differs from $id.1.a"
            diff "$TMP/$id.1.a" "$f" | head -5
            rc=2
        fi
    done
    echo "$id: $(grep -c . "$TMP/$id.1.a") lines identical across 6 executions (1/4/16 workers x 2)"
done
rm -rf "$TMP"
exit $rc
