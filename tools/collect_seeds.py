import json,os,re,glob,shutil
needs={
"C01-A":"a self-purchase (creator buys its own listing with its own bucket): save-then-remove on the same key deletes the record",
"C01-B":">=2 registered collections on one side and amounts whose per-collection royalty floors differ from the floor of the sum",
"C02-A":"a purchase attempted in the same second as, but later than, a sub-second expiration",
"C02-B":"an ask with two NFTs of one collection and a bucket that received them in the other order",
"C03-A":"a self-purchase (same as C01-A, produced independently for another property)",
"C03-B":"a bucket created through the CW721 hook re-using an id that is live under another owner, then a purchase from exactly that owner",
"C04-A":"an externally owned account calling ReceiveNft directly with a forged sender",
"C04-B":"a CW721-created bucket re-using the seller's bucket id, then a purchase that overwrites the seller's bucket",
"C05-A":"a proceeds bucket (pending fee) topped up with coins / CW20 before it is withdrawn or re-used",
"C05-B":"a token-shaped contract that forwards attached coins to the receive hooks",
"C06-A":">=3 NFTs of >=2 collections on one side deposited interleaved (A,B,A) with A registered",
"C06-B":"two registered collections sharing one payout address and amounts where the two floors differ from the floor of the sum",
"C07-A":"a self-purchase (same mechanism as C01-A)",
"C07-B":"two registered collections on one side with fractional royalty shares (same mechanism as C01-B)",
"C08-A":"a delete by the seller inside the last partial second before a sub-second expiration",
"C08-B":"ChangeAsk sent for a finalized, unsold listing",
"C09-A":"a bucket created via SendNft whose id is then re-used (the tombstone went to the listing map)",
"C09-B":"a full sale cycle ending in WithdrawPurchased, then creation of the same listing id",
"C11-A":">=18 collections on one side, registered ones summing above 5000 bps, and one unregistered collection whose address sorts before some registered ones",
"C11-B":"a side whose registered rates sum to 5001..5099 bps (e.g. 16x300+210)",
"C12-A":"an ask naming the same NFT twice with another token of that collection in between",
"C12-B":"a CW20-shaped token that does not itself refuse zero-amount Send",
"C13-A":"sub-second block times: a cycle attempt in the week second but less than 604800 s after a switch that happened late in its second",
"C13-B":"a proceeds bucket holding both fee denominations re-used after a fee-denomination switch",
"C14-A":"a payout-only Update followed by another Update/Remove within 100 blocks",
"C14-B":"an NFT contract without admin (never set, or cleared)",
"C15-A":"a fault on exactly a royalty payment of a purchase",
"C15-B":"a fault on exactly the community-pool deposit of a fee-bearing withdrawal",
"C16-A":"a listing finalized with exactly the maximum lifetime, queried during the last second of its life (exclusive lower bound of the finalized-date index scan)",
"C16-B":"an owner with at least 256 records and a request for page 14 or above",
"C18-A":"a forged ReceiveNft/AddToListingCw721 naming the BUYER of a sold, not yet withdrawn listing",
"C18-B":"a hostile contract calling ReceiveNft with coins attached",
"C19-A":"FeeCycle with coins attached at a moment when the cycle is due",
"C19-B":"a token-shaped contract forwarding TWO OR MORE denominations to a receive hook",
"C02-A2":"two different NFTs whose collection address + token id concatenate to the same string (contract1 #05 vs contract10 #5), one asked, the other offered",
"C02-B2":"a fee-denomination amount above u128::MAX/5 on either side of an otherwise valid purchase",
"C02-C2":"more than 50% of royalties due on a side while the paying side holds NFTs only",
"C06-A2":"registered collections on both sides of one trade with partly overlapping sets, the shared collection sorting before a non-shared one",
"C06-B2":"a charged fungible amount above 2^128/10^18 (royalty silently zero)",
"C06-C2":"a proceeds bucket (pending fee) re-used to buy again: the second purchase charges no fee",
"C05-A2":"one top-up carrying several native coins where a denomination the record already holds is not the last one",
"C05-B2":"a failing token transfer inside a payout (transfers dispatched as reply-on-error sub-messages)",
"C05-C2":"the BUYER of a sold listing sending DeleteListing after the original expiration",
}
caught={}
for f in glob.glob('/tmp/sens_seeds*.txt')+glob.glob('/tmp/sens_r2_*.txt'):
    for l in open(f):
        m=re.match(r'(C\d\d-[ABC]): (\w+) .*caught\[(.*?)\]',l)
        if m: caught[m.group(1)+('2' if '_r2_' in f else '')]=(m.group(2),m.group(3).split())
for d in sorted(glob.glob('/tmp/seeded/C*/[AB]'))+sorted(glob.glob('/tmp/seeded2/C*/[ABC]')):
    pid=d.split('/')[-2]; x=d.split('/')[-1]; name=f'{pid}-{x}'+('2' if 'seeded2' in d else '')
    if not all(os.path.exists(f'{d}/{fn}') for fn in ['patch.diff','demo.rs','notes.md']) or name not in caught: continue
    out=f'/verif/seeded/{name}'
    os.makedirs(out,exist_ok=True)
    for fn in ['patch.diff','demo.rs','notes.md']:
        shutil.copy(f'{d}/{fn}',f'{out}/{fn}')
    st,cs=caught.get(name,('not yet run',[]))
    meta={"id":name,"breaks_property":pid,"source":"independent sub-agent given only the property text and a scratch worktree of /repo (no access to /verif)",
      "needs_to_manifest":needs.get(name,""),
      "confirmed":"tools/confirm_seed.sh: patch applies on /repo HEAD; repository suite 30/30 with the patch; demo.rs (copied to contracts/marketplace/tests/seed_demo.rs, `cargo test -p marketplace --test seed_demo --offline`) fails with the patch and passes without it",
      "checks_run":"tools/sensitivity.sh <patch.diff>: quick checks against a scratch worktree with the patch applied (all 18 for the first round; the property's own check and its neighbours for the second, harder round)",
      "round": 2 if 'seeded2' in d else 1,
      "caught_by":cs,"caught_by_own_property_check": any(c.startswith(pid+'(') for c in cs),"status":st}
    json.dump(meta,open(f'{out}/meta.json','w'),indent=1)
    print(name,st,cs)
